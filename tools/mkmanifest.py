"""Regenerates /verif/MANIFEST.json from the property modules that exist."""
import importlib, json, os, sys
sys.path.insert(0, "/verif")
os.environ.setdefault("XSV_NOIMPORT", "1")
ALL = ["C%02d" % i for i in range(1, 21)]
checks, na = [], []
for pid in ALL:
    path = f"/verif/xsv/props/{pid.lower()}.py"
    if not os.path.exists(path):
        na.append({"property_id": pid, "reason": "check not built yet in this snapshot of /verif (runtime monitoring applies; see DESIGN.md section 2)"})
        continue
    src = open(path).read()
    ns = {}
    # read metadata without importing the library under test
    meta = {}
    for key in ("LEVEL", "TECHNIQUE", "LEVEL_TEXT", "LEVEL_NOTE", "DESIGN_REF"):
        import re
        m = re.search(r'^%s\s*=\s*(\(.*?\)|".*?")\s*$' % key, src, re.S | re.M)
        if m:
            meta[key] = eval(m.group(1))
    checks.append({
        "property_id": pid,
        "quick_cmd": f"./check {pid} --tier quick",
        "thorough_cmd": f"./check {pid} --tier thorough",
        "evidence_file": f"/verif/evidence/{pid}.json",
        "replay_cmd_template": f"./check {pid} --replay {{path}}",
        "engine": "xsv",
        "level_claimed": {
            "category": meta.get("LEVEL", "exploration"),
            "text": meta.get("LEVEL_TEXT", "held on the executions explored; see evidence for what was observed"),
            "design_ref": meta.get("DESIGN_REF", f"DESIGN.md section 2, {pid}"),
        },
        "level_note": meta.get("LEVEL_NOTE", "trusted base: harness generator + small reference oracles in xsv/oracle.py"),
        "technique": meta.get("TECHNIQUE", "runtime monitoring: generated workloads + online oracle over recorded events"),
    })
manifest = {
    "version": 1,
    "setup_cmd": "./setup.sh",
    "hooks": {
        "guard": "XSTATE_STATEMACHINE_VERIF",
        "enable": "no source hooks: checks import /repo/src directly (PYTHONPATH) and attach monitors through the public plugin API, subscribe(), user-supplied logic, and harness-side wrappers/descriptors; the variable is exported by ./check for forward compatibility",
        "baseline_off_cmd": "cd /repo && /venv/bin/python -m pytest -ra -q -p no:cacheprovider --timeout=900 --continue-on-collection-errors",
        "source_commits": [],
        "add_only": True,
    },
    "engines": [{"name": "xsv", "path": "/verif/xsv", "serves_properties": [c["property_id"] for c in checks],
                 "kind_free_text": "pure-Python runtime-monitoring harness: seeded statechart/workload generators, Recorder plugin + marker logic, virtual-time asyncio loop, sys.monitoring yield injection, status descriptor, method wrappers, icontract invariant, reference oracles, subprocess workers"}],
    "checks": checks,
    "not_applicable": na,
    "notes": "All checks: exit 0 held / 1 VIOLATION / 2 INCONCLUSIVE (a deciding monitor was not reached, or a worker timed out). Known findings: /verif/known_findings.json.",
}
json.dump(manifest, open("/verif/MANIFEST.json", "w"), indent=1)
print("checks:", [c["property_id"] for c in checks], "na:", len(na))
