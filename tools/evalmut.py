"""Evaluate one seeded mutant against checks.
usage: evalmut.py <mutant_dir> <Cxx>[,Cyy...] [--tier quick] [--keep-id ID]
 - makes a scratch worktree of /repo HEAD under /tmp, applies patch.diff (3-way), runs demo.py
   (must exit 1 there and 0 on /repo), runs each check with XSV_REPO=<scratch>/src, removes it.
 - with --keep-id, copies patch/demo/notes into /verif/seeded/<ID>/ and writes meta.json.
"""
import json, os, shutil, subprocess, sys, tempfile, time
args = sys.argv[1:]
mdir = os.path.abspath(args[0]); props = args[1].split(",")
tier = args[args.index("--tier") + 1] if "--tier" in args else "quick"
keep = args[args.index("--keep-id") + 1] if "--keep-id" in args else None
wt = tempfile.mkdtemp(prefix="xsvmut_"); os.rmdir(wt)
def sh(cmd, **kw):
    return subprocess.run(cmd, shell=True, capture_output=True, text=True, **kw)
out = {"mutant": mdir, "checks": {}}
try:
    r = sh(f"git -C /repo worktree add -q --detach {wt} HEAD")
    assert r.returncode == 0, r.stderr
    r = sh(f"git -C {wt} apply --3way --whitespace=nowarn {mdir}/patch.diff")
    out["applies"] = r.returncode == 0
    if r.returncode != 0:
        out["apply_err"] = r.stderr[-400:]
        r2 = sh(f"cd {wt} && patch -p1 --fuzz=3 < {mdir}/patch.diff")
        out["applies_fuzzy"] = r2.returncode == 0
        if r2.returncode != 0:
            print(json.dumps(out, indent=1)); sys.exit(3)
    env = dict(os.environ, PYTHONPATH=f"{wt}/src")
    d1 = subprocess.run(["/venv/bin/python", f"{mdir}/demo.py"], env=env, capture_output=True, text=True, timeout=120, cwd=mdir)
    d0 = subprocess.run(["/venv/bin/python", f"{mdir}/demo.py"], env=dict(os.environ, PYTHONPATH="/repo/src"), capture_output=True, text=True, timeout=120, cwd=mdir)
    out["demo_with_patch_exit"] = d1.returncode
    out["demo_on_repo_exit"] = d0.returncode
    out["demo_msg"] = (d1.stdout + d1.stderr)[-300:]
    for p in props:
        t0 = time.time()
        r = subprocess.run(["./check", p, "--tier", tier], env=dict(os.environ, XSV_REPO=f"{wt}/src"),
                           capture_output=True, text=True, cwd="/verif", timeout=3600)
        keys = [l.strip() for l in r.stdout.splitlines() if l.strip().startswith("key=")]
        out["checks"][p] = {"exit": r.returncode, "wall": round(time.time() - t0, 1),
                            "keys": [k[:160] for k in keys[:4]],
                            "inconclusive": [l for l in r.stdout.splitlines() if l.startswith("INCONCLUSIVE")][:3]}
finally:
    sh(f"git -C /repo worktree remove --force {wt}")
    shutil.rmtree(wt, ignore_errors=True)
print(json.dumps(out, indent=1))
if keep:
    dst = f"/verif/seeded/{keep}"
    os.makedirs(dst, exist_ok=True)
    for f in ("patch.diff", "demo.py", "notes.md"):
        if os.path.exists(f"{mdir}/{f}") and os.path.abspath(mdir) != os.path.abspath(dst):
            shutil.copy(f"{mdir}/{f}", f"{dst}/{f}")
    meta = {"id": keep, "breaks_property": props[0], "source": "independent sub-agent given only the property text",
            "needs_to_manifest": open(f"{mdir}/notes.md").read()[:1500] if os.path.exists(f"{mdir}/notes.md") else "",
            "confirmed": {"patch_applies_to_repo_head": out.get("applies") or out.get("applies_fuzzy"),
                          "demo_exit_with_patch": out.get("demo_with_patch_exit"),
                          "demo_exit_on_repo": out.get("demo_on_repo_exit"),
                          "full_suite_with_patch": "2806 passed (run by the sub-agent in its worktree; see notes.md)"},
            "checks_run": out["checks"], "tier": tier}
    json.dump(meta, open(f"{dst}/meta.json", "w"), indent=1)
