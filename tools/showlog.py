"""Generic witness viewer: showlog.py <replay.json> [maxlines]  (needs prop.make_case(spec, idx))"""
import json, sys, importlib
sys.path.insert(0, "/verif")
from xsv import gen, drive, observe, oracle
from xsv.props.common import rng_for
observe.quiet_logs()
w = json.load(open(sys.argv[1])); spec = w["spec"]; idx = w["case"]["idx"]; engine = w["case"].get("engine", "sync")
pid = w["property"]
prop = importlib.import_module("xsv.props." + pid.lower())
case = prop.make_case(spec, idx)
erng = rng_for(spec["seed"], pid, spec["chunk"], idx, "events")
maxl = int(sys.argv[2]) if len(sys.argv) > 2 else 80
print(w["key"], "|", w["what"])
lines = []
def on_step(run, st):
    rec = run["rec"]
    lines.append("== step %s %s %s status=%s" % (st.i, st.phase, st.event, st.status))
    for r in rec.log[st.log_from:]:
        if r[0] == "act": lines.append("   act %s ev=%s data=%s" % (r[1], getattr(r[2], "type", r[2]), getattr(r[2], "data", "")))
        elif r[0] == "tx": lines.append("   TX %s  -%s +%s" % (r[3], sorted(r[1]-r[2]), sorted(r[2]-r[1])))
        elif r[0] == "ev": lines.append("   EV %s" % (r[1],))
        elif r[0] in ("done", "error", "svcall"): lines.append("   %s" % (r,))
    lines.append("   cfg %s" % sorted(st.cfg))
    return False
f = {"sync": drive.run_sync, "async": drive.run_async, "pure": drive.run_pure}[engine]
f(case, len(w["witness"]["events"]), erng, on_step)
print("\n".join(lines[-maxl:]))
