import json, sys
sys.path.insert(0, "/verif")
from xsv import gen, drive, observe
from xsv.props import c05
from xsv.props.common import rng_for
observe.quiet_logs()
w = json.load(open(sys.argv[1])); spec = w["spec"]; idx = w["case"]["idx"]
pname = c05.PROFILE_CYCLE[idx % len(c05.PROFILE_CYCLE)]
with_services = idx % 3 == 0
if with_services:
    pname = "history" if idx % 2 else "core"
case = gen.gen_case(rng_for(spec["seed"], "C05", spec["chunk"], idx, "case"), gen.profile(pname, p_invoke=0.3, p_parallel=0.0, p_parallel_root=0.0) if with_services else gen.profile(pname, maxit=20000))
nev = c05.NEV[spec["tier"]]
grng = rng_for(spec["seed"], "C05", spec["chunk"], idx, "gtables")
gtables = [drive.rand_gtable(grng, case) for _ in range(nev + 1)]
erng = rng_for(spec["seed"], "C05", spec["chunk"], idx, "events")
ts, events, _ = c05._trace("sync", case, nev, None, gtables, erng, with_services)
step = w["witness"]["step"]
print(w["what"])
print(json.dumps(case.plan, default=str)[:int(sys.argv[3]) if len(sys.argv) > 3 else 3000])
for eng in sys.argv[2].split(","):
    t, _, run = c05._trace(eng, case, nev, events, gtables, erng, with_services)
    print("=====", eng)
    for i in range(max(0, step - 1), min(len(t), step + 1)):
        x = t[i]
        print(" step", i, events[i - 1] if i > 0 else "start", "status", x.get("status"), "exc", x.get("exc"))
        print("   cfg", sorted(x.get("cfg", [])))
        print("   ctx", x.get("ctx"))
        print("   acts", len(x.get("acts", [])), x.get("acts", [])[:int(sys.argv[4]) if len(sys.argv) > 4 else 40])
