"""Run a check against a mutated scratch copy of /repo/src.
usage: withmut.py <relpath> <old> <new> -- <command...>     (old must occur exactly `count` times, default 1)
"""
import os, shutil, subprocess, sys, tempfile
args = sys.argv[1:]
i = args.index("--")
rel, old, new = args[0], args[1], args[2]
cmd = args[i + 1:]
tmp = tempfile.mkdtemp(prefix="xsvmut")
try:
    shutil.copytree("/repo/src", os.path.join(tmp, "src"))
    p = os.path.join(tmp, "src", "xstate_statemachine", rel)
    s = open(p).read()
    n = s.count(old)
    if n < 1:
        print("pattern not found"); sys.exit(9)
    s = s.replace(old, new)
    open(p, "w").write(s)
    env = dict(os.environ, XSV_REPO=os.path.join(tmp, "src"))
    r = subprocess.run(cmd, env=env, cwd="/verif")
    sys.exit(r.returncode)
finally:
    shutil.rmtree(tmp, ignore_errors=True)
