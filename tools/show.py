"""Debug helper: re-run a C01-style witness and print the recorder log."""
import json, sys
sys.path.insert(0, "/verif")
from xsv import gen, drive, observe, oracle
from xsv.props.common import rng_for
observe.quiet_logs()
w = json.load(open(sys.argv[1]))
wi = w["witness"]
spec = w["spec"]; idx = w["case"]["idx"]; engine = w["case"]["engine"]
pid = w["property"]
import importlib
prop = importlib.import_module("xsv.props." + pid.lower())
pname = prop.PROFILE_CYCLE[idx % len(prop.PROFILE_CYCLE)]
case = gen.gen_case(rng_for(spec["seed"], pid, spec["chunk"], idx, "case"), gen.profile(pname))
print(json.dumps(case.plan, indent=1, default=str)[:6000])
erng = rng_for(spec["seed"], pid, spec["chunk"], idx, "events")
def on_step(run, st):
    rec = run["rec"]
    print("== step", st.i, st.phase, st.event, "status", st.status, "exc", st.extra if isinstance(st.extra, Exception) else "")
    for r in rec.log[st.log_from:]:
        if r[0] == "act": print("   act", r[1], getattr(r[2], "type", r[2]), sorted(r[3]))
        elif r[0] == "tx": print("   TX", sorted(r[1]), "->", sorted(r[2]), r[3], "legal:", oracle.legal(case.tree, r[2]))
        elif r[0] == "ev": print("   EV", r[1])
        elif r[0] == "sub": print("   sub", sorted(r[1]))
    print("   cfg", sorted(st.cfg), oracle.legal(case.tree, st.cfg))
    return oracle.legal(case.tree, st.cfg) is not None
f = {"sync": drive.run_sync, "async": drive.run_async, "pure": drive.run_pure}[engine]
f(case, len(wi["events"]) , erng, on_step)
