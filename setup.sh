#!/bin/bash
# Offline setup: runtime-contract library beside the repository's interpreter.
set -e
cd "$(dirname "$0")"
if ! PYTHONPATH="$PWD/.deps" /venv/bin/python -c "import icontract" 2>/dev/null; then
  /venv/bin/pip install --quiet --no-index --find-links /opt/veriftools/wheels \
      --target "$PWD/.deps" icontract >/dev/null 2>&1 || \
  /venv/bin/pip install --no-index --find-links /opt/veriftools/wheels --target "$PWD/.deps" icontract
fi
PYTHONPATH="$PWD:$PWD/.deps" /venv/bin/python -c "import icontract, xsv.observe; print('setup ok')"
