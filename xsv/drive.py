"""Engine drivers: run one generated case on the sync, async (virtual time) or pure engine."""
from __future__ import annotations

import asyncio
import random
from typing import Any, Callable, Dict, List, Optional

from . import gen, observe
from .observe import (Event, Interpreter, Rec, SyncInterpreter, config_of, drain,
                      make_machine, run_virtual)


def handled_events(case: gen.Case, cfg) -> List[str]:
    out = set()
    for t in case.trans:
        if t.kind == "on" and t.source.id in cfg and not t.forbidden:
            if t.event == "*":
                out.update(case.events)
            elif t.event.endswith(".*"):
                out.update(e for e in case.events if e == t.event[:-2] or e.startswith(t.event[:-1]))
            else:
                out.add(t.event)
    return sorted(out)


def pick_event(rng: random.Random, case: gen.Case, cfg, i: int) -> Dict[str, Any]:
    h = handled_events(case, cfg)
    if h and rng.random() < 0.75:
        ev = rng.choice(h)
    else:
        ev = rng.choice(case.events + ["ZZ"])
    return {"type": ev, "k": i}


def rand_gtable(rng: random.Random, case: gen.Case) -> Dict[str, Any]:
    t = {a: rng.random() < 0.55 for a in case.atoms}
    if "gR" in t:
        t["gR"] = "raise"
    return t


class Step:
    """What a driver reports after each externally visible step."""
    __slots__ = ("i", "phase", "event", "cfg", "ctx", "status", "output", "log_from", "extra")

    def __init__(self, i, phase, event, cfg, ctx, status, output, log_from, extra=None):
        self.i = i
        self.phase = phase  # "start" | "send" | "stop"
        self.event = event
        self.cfg = cfg
        self.ctx = ctx
        self.status = status
        self.output = output
        self.log_from = log_from
        self.extra = extra


def _mk_event(ev: Dict[str, Any]) -> Event:
    d = dict(ev)
    return Event(type=d.pop("type"), payload=d)


def run_sync(case: gen.Case, nevents: int, rng: random.Random, on_step: Callable,
             events: Optional[List[Dict[str, Any]]] = None, flip_guards=True,
             setup: Optional[Callable] = None, gtable=None, machine_kw=None,
             pre_step: Optional[Callable] = None,
        gtables: Optional[List[Dict[str, Any]]] = None, batch: int = 0):
    """Runs the case on SyncInterpreter; `on_step(run, step)` returning True stops the run.
    With `batch`=k (and an explicit event list) events are handed over k at a time through
    send_events(); the guard table of a batch is that of its first event; one step per batch."""
    rec = Rec()
    gt = dict(gtables[0]) if gtables is not None else (
        dict(gtable) if gtable is not None else rand_gtable(rng, case))
    machine = make_machine(case, rec, gt, **(machine_kw or {}))
    interp = SyncInterpreter(machine)
    interp.use(rec)
    interp.subscribe(rec.subscriber)
    run = {"rec": rec, "interp": interp, "machine": machine, "gtable": gt, "engine": "sync",
           "events": [], "case": case}
    if setup:
        setup(run)
    exc = None
    try:
        interp.start()
    except Exception as e:  # library refused the machine (or raised)
        exc = e
    st = Step(-1, "start", None, config_of(interp), interp.context, interp.status,
              interp.output, 0, extra=exc)
    if on_step(run, st) or exc is not None:
        _safe_stop_sync(interp)
        return run
    n = len(events) if events is not None else nevents
    if batch and events is not None:
        for i in range(0, n, batch):
            if gtables is not None:
                gt.clear()
                gt.update(gtables[i + 1])
            chunk = events[i:i + batch]
            run["events"].extend(chunk)
            mark = len(rec.log)
            exc = None
            try:
                interp.send_events([_mk_event(e) for e in chunk])
            except Exception as e:
                exc = e
            st = Step(i, "send", chunk[-1], config_of(interp), interp.context, interp.status,
                      interp.output, mark, extra=exc)
            if on_step(run, st):
                break
        _safe_stop_sync(interp)
        return run
    for i in range(n):
        if gtables is not None:
            gt.clear()
            gt.update(gtables[i + 1])
        elif flip_guards and gtable is None:
            gt.update(rand_gtable(rng, case))
        ev = events[i] if events is not None else pick_event(rng, case, config_of(interp), i)
        run["events"].append(ev)
        evobj = None
        if pre_step:
            evobj = pre_step(run, i, ev)      # may hand back the very Event object to deliver
        mark = len(rec.log)
        exc = None
        try:
            interp.send(evobj if isinstance(evobj, Event) else _mk_event(ev))
        except Exception as e:
            exc = e
        st = Step(i, "send", ev, config_of(interp), interp.context, interp.status,
                  interp.output, mark, extra=exc)
        if on_step(run, st):
            break
    _safe_stop_sync(interp)
    return run


def _safe_stop_sync(interp):
    try:
        interp.stop()
    except Exception:
        pass


def run_async(case: gen.Case, nevents: int, rng: random.Random, on_step: Callable,
              events: Optional[List[Dict[str, Any]]] = None, flip_guards=True,
              setup: Optional[Callable] = None, gtable=None, machine_kw=None,
              pre_step: Optional[Callable] = None,
        gtables: Optional[List[Dict[str, Any]]] = None, batch: int = 0):
    """Runs the case on Interpreter over a virtual-time loop; observes at each drain."""
    rec = Rec()
    gt = dict(gtables[0]) if gtables is not None else (
        dict(gtable) if gtable is not None else rand_gtable(rng, case))
    run: Dict[str, Any] = {"rec": rec, "gtable": gt, "engine": "async", "events": [],
                           "case": case, "undrained": 0}

    async def body():
        machine = make_machine(case, rec, gt, **(machine_kw or {}))
        interp = Interpreter(machine)
        interp.use(rec)
        interp.subscribe(rec.subscriber)
        run["interp"] = interp
        run["machine"] = machine
        if setup:
            setup(run)
        exc = None
        try:
            await interp.start()
            if not await drain(interp):
                run["undrained"] += 1
        except Exception as e:
            exc = e
        st = Step(-1, "start", None, config_of(interp), interp.context, interp.status,
                  interp.output, 0, extra=exc)
        r = on_step(run, st)
        if asyncio.iscoroutine(r):
            r = await r
        if r or exc is not None:
            await _safe_stop_async(interp)
            return
        n = len(events) if events is not None else nevents
        if batch and events is not None:
            for i in range(0, n, batch):
                if gtables is not None:
                    gt.clear()
                    gt.update(gtables[i + 1])
                chunk = events[i:i + batch]
                run["events"].extend(chunk)
                mark = len(rec.log)
                exc = None
                try:
                    await interp.send_events([_mk_event(e) for e in chunk])
                    if not await drain(interp):
                        run["undrained"] += 1
                except Exception as e:
                    exc = e
                st = Step(i, "send", chunk[-1], config_of(interp), interp.context, interp.status,
                          interp.output, mark, extra=exc)
                r = on_step(run, st)
                if asyncio.iscoroutine(r):
                    r = await r
                if r:
                    break
            await _safe_stop_async(interp)
            return
        for i in range(n):
            if gtables is not None:
                gt.clear()
                gt.update(gtables[i + 1])
            elif flip_guards and gtable is None:
                gt.update(rand_gtable(rng, case))
            ev = events[i] if events is not None else pick_event(rng, case, config_of(interp), i)
            run["events"].append(ev)
            evobj = None
            if pre_step:
                evobj = pre_step(run, i, ev)
            mark = len(rec.log)
            exc = None
            try:
                await interp.send(evobj if isinstance(evobj, Event) else _mk_event(ev))
                if not await drain(interp):
                    run["undrained"] += 1
            except Exception as e:
                exc = e
            st = Step(i, "send", ev, config_of(interp), interp.context, interp.status,
                      interp.output, mark, extra=exc)
            r = on_step(run, st)
            if asyncio.iscoroutine(r):
                r = await r
            if r:
                break
        await _safe_stop_async(interp)

    run_virtual(body)
    return run


async def _safe_stop_async(interp):
    try:
        await interp.stop()
    except Exception:
        pass


def run_pure(case: gen.Case, nevents: int, rng: random.Random, on_step: Callable,
             events: Optional[List[Dict[str, Any]]] = None, flip_guards=True, gtable=None,
             machine_kw=None, gtables: Optional[List[Dict[str, Any]]] = None):
    """Chains the pure API: initial_transition, then transition per event."""
    from xstate_statemachine import initial_transition
    from xstate_statemachine.helpers import transition as pure_transition
    rec = Rec()
    gt = dict(gtables[0]) if gtables is not None else (
        dict(gtable) if gtable is not None else rand_gtable(rng, case))
    machine = make_machine(case, rec, gt, **(machine_kw or {}))
    run = {"rec": rec, "machine": machine, "gtable": gt, "engine": "pure", "events": [],
           "case": case}
    exc = None
    snap, acts = None, []
    try:
        snap, acts = initial_transition(machine)
    except Exception as e:
        exc = e
    run["snap"] = snap
    st = Step(-1, "start", None, frozenset(snap.configuration) if snap else frozenset(),
              snap.context if snap else None, snap.status if snap else None,
              snap.output if snap else None, 0, extra=exc if exc else acts)
    if on_step(run, st) or exc is not None:
        return run
    n = len(events) if events is not None else nevents
    for i in range(n):
        if gtables is not None:
            gt.clear()
            gt.update(gtables[i + 1])
        elif flip_guards and gtable is None:
            gt.update(rand_gtable(rng, case))
        ev = events[i] if events is not None else pick_event(rng, case, snap.configuration, i)
        run["events"].append(ev)
        mark = len(rec.log)
        exc = None
        try:
            snap, acts = pure_transition(machine, snap, dict(ev))
        except Exception as e:
            exc = e
        run["snap"] = snap
        st = Step(i, "send", ev, frozenset(snap.configuration), snap.context, snap.status,
                  snap.output, mark, extra=exc if exc else acts)
        if on_step(run, st) or exc is not None:
            break
    return run
