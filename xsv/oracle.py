"""Small reference functions derived from the property statements (trusted base)."""
from __future__ import annotations

from typing import Any, Dict, FrozenSet, Iterable, List, Optional, Set

from .gen import Node, Tree


def legal(tree: Tree, cfg: Iterable[str]) -> Optional[str]:
    """None if `cfg` (set of state ids) is a legal configuration, else a reason."""
    cfg = set(cfg)
    root = tree.root
    if root.id not in cfg:
        return "root-inactive"
    for sid in sorted(cfg):
        n = tree.by_id.get(sid)
        if n is None:
            return f"unknown-state:{sid}"
        if n.kind == "history":
            return f"history-active:{sid}"
        if n.parent is not None and n.parent.id not in cfg:
            return f"orphan:{sid}"
        if n.kind == "compound":
            act = [c for c in n.children if c.id in cfg]
            if len(act) != 1:
                return f"compound-{len(act)}-children:{sid}"
        elif n.kind == "parallel":
            for c in n.children:
                if c.kind != "history" and c.id not in cfg:
                    return f"parallel-missing-region:{sid}"
    return None


def legal_class(reason: str) -> str:
    """Mechanism class of an illegal configuration (id-free)."""
    return reason.split(":")[0]


def initial_descent(node: Node) -> List[Node]:
    """States activated by a normal (default) entry of `node`, incl. itself."""
    out = [node]
    if node.kind == "compound":
        c = node.child(node.initial) if node.initial else None
        if c is not None:
            out += initial_descent(c)
    elif node.kind == "parallel":
        for c in node.children:
            if c.kind != "history":
                out += initial_descent(c)
    return out


def proper_common_ancestor(a: Node, b: Node) -> Node:
    """Deepest proper ancestor of both a and b (root if none other)."""
    anc_a = list(a.ancestors())
    anc_b = set(id(x) for x in b.ancestors())
    for x in anc_a:
        if id(x) in anc_b:
            return x
    # a or b is root
    n = a
    while n.parent is not None:
        n = n.parent
    return n


def leaves(tree: Tree, cfg: Iterable[str]) -> List[Node]:
    cfg = set(cfg)
    out = []
    for sid in cfg:
        n = tree.by_id.get(sid)
        if n is None:
            continue
        if not any(c.id in cfg for c in n.children):
            out.append(n)
    return out


# ---------------------------------------------------------------------------
# event descriptors (C20) and selection (C02)
# ---------------------------------------------------------------------------
INTERNAL_PREFIXES = ("done.", "error.", "after.", "xstate.")


def match_descriptors(keys: Iterable[str], etype: str) -> List[str]:
    """Keys of one state's `on` map matching `etype`, most specific first."""
    keys = list(keys)
    out: List[str] = []
    if etype in keys and etype != "":
        out.append(etype)
    if etype.startswith(INTERNAL_PREFIXES):
        return out
    partials = []
    for k in keys:
        if k.endswith(".*") and k != "*":
            p = k[:-2]
            if etype == p or etype.startswith(p + "."):
                partials.append(k)
    partials.sort(key=len, reverse=True)
    out += [p for p in partials if p not in out]
    if "*" in keys:
        out.append("*")
    return out


def done_direct(node: Node, cfg: Set[str]) -> bool:
    if node.kind == "compound":
        return any(c.id in cfg and c.kind == "final" for c in node.children)
    if node.kind == "parallel":
        regs = [c for c in node.children if c.kind != "history"]
        return bool(regs) and all(
            (c.kind == "final" and c.id in cfg) or done_direct(c, cfg) for c in regs)
    return False


def done_rec(node: Node, cfg: Set[str]) -> bool:
    if node.kind == "final":
        return node.id in cfg
    if node.kind == "compound":
        return any(c.id in cfg and done_rec(c, cfg) for c in node.children)
    if node.kind == "parallel":
        regs = [c for c in node.children if c.kind != "history"]
        return bool(regs) and all(done_rec(c, cfg) for c in regs)
    return False


def guard_true(guard, gtable) -> bool:
    """Truth of a generated guard (atom name or None) under a table; raise counts as false."""
    if guard is None:
        return True
    if isinstance(guard, str):
        return gtable.get(guard, False) is True
    raise TypeError("composite guards are evaluated by eval_guard")


def on_index(case):
    """node id -> {event key -> [Trans in declaration order]} for kind == 'on'."""
    idx = getattr(case, "_on_index", None)
    if idx is None:
        idx = {}
        for t in case.trans:
            if t.kind == "on":
                idx.setdefault(t.source.id, {}).setdefault(t.event, []).append(t)
        case._on_index = idx
    return idx


def nominees(case, cfg, etype: str, gtable) -> list:
    """Transitions nominated for `etype` in configuration `cfg` (statement of C02).

    Per active atomic state: walk self -> root; at each level try the matching
    descriptor keys most specific first and, within a key, candidates in
    declaration order; the first enabled candidate of the first level that has
    one is nominated; a null (forbidden) transition stops the walk.
    De-duplicated by identity (a handler on a shared ancestor is nominated once).
    """
    tree = case.tree
    idx = on_index(case)
    out = []
    for leaf in sorted(leaves(tree, cfg), key=lambda n: n.id):
        node = leaf
        while node is not None:
            onmap = idx.get(node.id, {})
            chosen, blocked = None, False
            for k in match_descriptors(onmap.keys(), etype):
                for t in onmap[k]:
                    if t.forbidden:
                        blocked = True
                        break
                    if guard_true(t.guard, gtable):
                        chosen = t
                        break
                if blocked or chosen is not None:
                    break
            if chosen is not None:
                if not any(chosen is x for x in out):
                    out.append(chosen)
                break
            if blocked:
                break
            node = node.parent
    return out


def enter_set(P: Node, explicit) -> Set[str]:
    """Ids active inside P (incl. P) after entering P with the explicit target nodes `explicit`
    (each a descendant-or-self of P); everything not named gets its default entry."""
    explicit = list(explicit)

    def on_path(n):
        return any(e.is_desc_of(n) for e in explicit)

    out: Set[str] = set()

    def expand(n):
        out.add(n.id)
        if n.kind == "compound":
            kids = [c for c in n.children if c.kind != "history" and on_path(c)]
            if not kids and n.initial and n.child(n.initial) is not None:
                kids = [n.child(n.initial)]
            for c in kids:
                expand(c)
        elif n.kind == "parallel":
            for c in n.children:
                if c.kind != "history":
                    expand(c)
    expand(P)
    return out


def legal_nodes(machine, cfg_ids) -> Optional[str]:
    """legal() over the library's own node tree (used where the harness has no generator tree)."""
    cfg = set(cfg_ids)
    if machine.id not in cfg:
        return "root-inactive"

    def walk(n):
        yield n
        for c in n.states.values():
            yield from walk(c)
    by_id = {n.id: n for n in walk(machine)}
    for sid in cfg:
        n = by_id.get(sid)
        if n is None:
            return "unknown-state:" + sid
        if n.type == "history":
            return "history-active:" + sid
        if n.parent is not None and n.parent.id not in cfg:
            return "orphan:" + sid
        if n.type == "compound":
            k = sum(1 for c in n.states.values() if c.id in cfg)
            if k != 1:
                return "compound-%d-children:%s" % (k, sid)
        elif n.type == "parallel":
            if any(c.type != "history" and c.id not in cfg for c in n.states.values()):
                return "parallel-missing-region:" + sid
    return None


# ---------------------------------------------------------------------------
# reference target resolution over the generator's tree (independent of the library's resolver)
# ---------------------------------------------------------------------------
def _descend(node, segments):
    cur = node
    for seg in segments:
        nxt = None
        for c in cur.children:
            if c.key == seg:
                nxt = c
                break
        if nxt is None:
            return None
        cur = nxt
    return cur


def _resolve_once(tree, ref, target):
    """One application of the documented resolution order (resolver.py docstring) from `ref`."""
    root = tree.root
    if target.startswith("#"):
        segs = target[1:].split(".")
        if segs[0] == root.key:
            r = _descend(root, segs[1:])
            if r is not None:
                return r
        for n in tree.order:
            if n.custom_id == segs[0]:
                return n if len(segs) == 1 else _descend(n, segs[1:])
        return None
    if target == ".":
        return ref.parent or ref
    if target.startswith("."):
        return _descend(ref.parent or ref, target[1:].split("."))
    segs = target.split(".")
    cur = ref
    while cur is not None:
        r = _descend(cur, segs)
        if r is not None:
            return r
        if len(segs) == 1 and segs[0] == cur.key:
            return cur
        cur = cur.parent
    return None


def resolve_reference(tree, source, target):
    """State a target spelling written on `source` denotes: the interpreters try the spelling from
    the source, from its parent, from the root, then prefixed with the machine id, and finally fall
    back to the first state (document order) whose key equals the spelling."""
    attempts = [(target, source)]
    if source.parent is not None:
        attempts.append((target, source.parent))
    attempts += [(target, tree.root), ("%s.%s" % (tree.root.id, target), tree.root)]
    for tgt, ref in attempts:
        r = _resolve_once(tree, ref, tgt)
        if r is not None:
            return r
    for n in tree.order:
        if n.key == target:
            return n
    return None
