"""Shared helpers for property modules."""
from __future__ import annotations

import hashlib
import json
import random
import zlib
from typing import Any, Dict, List


def rng_for(*parts) -> random.Random:
    s = "|".join(str(p) for p in parts)
    return random.Random(zlib.crc32(s.encode()) ^ (hash_int(s) << 32))


def hash_int(s: str) -> int:
    return int.from_bytes(hashlib.blake2b(s.encode(), digest_size=6).digest(), "big")


def h(obj: Any) -> str:
    return hashlib.blake2b(json.dumps(obj, sort_keys=True, default=str).encode(),
                           digest_size=8).hexdigest()


def split(total: int, nchunks: int) -> List[int]:
    base, extra = divmod(total, nchunks)
    return [base + (1 if i < extra else 0) for i in range(nchunks)]


def mk_chunks(pid: str, tier: str, seed: int, total: int, nchunks: int = 16, **extra) -> List[Dict[str, Any]]:
    out = []
    for i, n in enumerate(split(total, nchunks)):
        if n <= 0:
            continue
        d = {"name": f"{pid}-{tier}-{i}", "prop": pid, "tier": tier, "seed": seed,
             "chunk": i, "n": n}
        d.update(extra)
        out.append(d)
    return out


class Result:
    def __init__(self):
        self.evaluations = 0
        self.hashes = set()
        self.counters: Dict[str, int] = {}
        self.violations: List[Dict[str, Any]] = []
        self.samples: List[Any] = []
        self.inconclusive: List[str] = []
        self._vkeys: Dict[str, int] = {}

    def count(self, key: str, n: int = 1):
        self.counters[key] = self.counters.get(key, 0) + n

    def violation(self, key: str, what: str, witness: Any, case: Any = None):
        self._vkeys[key] = self._vkeys.get(key, 0) + 1
        if self._vkeys[key] <= 3:  # keep at most 3 witnesses per mechanism per chunk
            self.violations.append({"key": key, "what": what, "witness": witness, "case": case})
        self.count("violations_seen")

    def sample(self, s: Any, limit: int = 2):
        if len(self.samples) < limit:
            self.samples.append(s)

    def to_json(self):
        return {"evaluations": self.evaluations, "hashes": sorted(self.hashes),
                "counters": self.counters, "violations": self.violations,
                "samples": self.samples, "inconclusive": self.inconclusive}


def plan_summary(case, max_len=1400):
    """Readable, JSON-able summary of a generated machine for samples/witnesses."""
    s = json.dumps(case.plan, default=str)
    return json.loads(s) if len(s) <= max_len else {"truncated_plan": s[:max_len]}


# ---------------------------------------------------------------------------
# per-case watchdog: a case that never returns must not take the chunk's
# results with it.  On expiry the partial result is flushed and the worker
# exits (a runaway async chain cannot be interrupted from inside its loop).
# ---------------------------------------------------------------------------
import os as _os
import sys as _sys
import threading as _threading
import time as _time


class Watchdog:
    def __init__(self, res: "Result", limit_s: float = 60.0, on_hang=None):
        self.res = res
        self.limit = limit_s
        self.on_hang = on_hang
        self._deadline = None
        self._label = None
        self._lock = _threading.Lock()
        t = _threading.Thread(target=self._run, daemon=True, name="xsv-watchdog")
        t.start()

    def arm(self, label, limit_s=None):
        if _os.environ.get("XSV_TRACE"):
            _sys.stderr.write("%.1f arm %s\n" % (_time.time(), label))
        with self._lock:
            self._label = label
            self._deadline = _time.time() + (limit_s or self.limit)

    def disarm(self):
        with self._lock:
            self._deadline = None

    def _run(self):
        while True:
            _time.sleep(0.25)
            with self._lock:
                dl, label = self._deadline, self._label
            if dl is not None and _time.time() > dl:
                try:
                    if self.on_hang is not None:
                        self.on_hang(label)
                    else:
                        self.res.inconclusive.append("case-hang:%s" % (label,))
                    _sys.stdout.write("\nXSVRESULT " + json.dumps(self.res.to_json(), default=str) + "\n")
                    _sys.stdout.flush()
                finally:
                    _os._exit(0)
