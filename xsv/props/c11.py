"""C11 — history states restore the last active sub-configuration.

Oracle: a history *shadow* maintained from the observed configuration sequence
only (what was active inside P in the configuration just before P last left
the configuration), plus the statement's fallbacks for a never-exited parent.
"""
from __future__ import annotations

from .. import drive, gen, observe, oracle
from ..observe import (Interpreter, MachineLogic, SyncInterpreter, config_of, create_machine, drain,
                       run_virtual)
from .common import Result, Watchdog, h, mk_chunks, plan_summary, rng_for

ID = "C11"
LEVEL = "exploration"
TECHNIQUE = ("runtime monitoring: history shadow model updated from observed on_transition "
             "configurations; each history-target transition compared with the expected "
             "sub-configuration; snapshot/restore twin compared on the same history transition")
LEVEL_TEXT = ("every history-target transition whose source lies outside the history state's "
              "parent (and whose parent is inactive) is compared with the shadow; held on the "
              "transitions explored")
LEVEL_NOTE = "trusted: generator tree, oracle.enter_set / initial_descent, shadow update rule"
RULE = ("profile 'history' (+parallel parents, deep/shallow, defaults, depth<=3) x sync+async x "
        "random walks; one evaluation = one judged history-target transition; non-trivial = "
        "parent previously exited (restore, not default); distinct = hash(plan, config before, "
        "history node)")
ASSUMPTIONS = [
    "history targets taken while the parent is still active are run (C01 judges legality) but "
    "which child is restored there is not judged (left unspecified by the statement)",
]

TOTAL = {"quick": 2000, "thorough": 60000}
NEV = {"quick": 30, "thorough": 40}


def chunks(tier, seed):
    return mk_chunks(ID, tier, seed, TOTAL[tier], 16, timeout=900 if tier == "quick" else 3000)


def _marker_of(transition):
    for a in getattr(transition, "actions", []) or []:
        t = getattr(a, "type", "")
        if t.startswith("tr."):
            return t
    return None


def _profile(idx=0):
    # every third machine has siblings whose names extend one another ("s3" / "s3x")
    return gen.profile("history", p_history=0.6, p_hist_target=0.45, p_hist_default=0.35,
                       p_parallel=0.35, p_target_root=0.0, p_prefix_key=0.5 if idx % 3 == 1 else 0.0)


def run_case(res: Result, spec, idx):
    case = gen.gen_case(rng_for(spec["seed"], ID, spec["chunk"], idx, "case"), _profile(idx))
    tree = case.tree
    if not any(n.kind == "history" for n in tree.order):
        return
    nev = NEV[spec["tier"]]
    for engine in ("sync", "async"):
        if spec.get("only_engine") and spec["only_engine"] != engine:
            continue
        erng = rng_for(spec["seed"], ID, spec["chunk"], idx, "events")
        S = {"bad": None, "shadow": {}, "snap": None, "hist_step": False}

        def bad(key, what, extra=None):
            if S["bad"] is None:
                S["bad"] = (key, what, extra or {})

        def judge_tx(r, entries):
            frm, to = r[1], r[2]
            tr = case.by_marker.get(_marker_of(r[3]))
            if tr is not None and tr.target is not None and tr.target.kind == "history":
                H, P = tr.target, tr.target.parent
                S["hist_step"] = True
                res.count("history-transitions.total")
                inside = tr.source.is_desc_of(P)
                if inside or P.id in frm:
                    res.count("history-transitions.parent-active(unjudged)")
                else:
                    res.evaluations += 1
                    rem = S["shadow"].get(P.id)
                    kind = "%s-%s" % (H.hist, P.kind)
                    if rem is None:
                        how = "default-target" if H.hist_default is not None else "parent-entry"
                        explicit = [H.hist_default] if H.hist_default is not None else []
                        expected = oracle.enter_set(P, explicit)
                    elif H.hist == "deep":
                        how = "restore"
                        expected = set(rem) | {P.id}
                    else:
                        how = "restore"
                        kids = [tree.by_id[x] for x in rem if tree.by_id[x].parent is P]
                        expected = {P.id}
                        for k in kids:
                            expected |= {n.id for n in oracle.initial_descent(k)}
                    observed = {s for s in to if s == P.id or s.startswith(P.id + ".")}
                    res.count("judged.%s.%s" % (kind, how))
                    if how == "restore":
                        res.hashes.add(h([case.plan, sorted(frm), H.id]))
                    # the rest of what this transition entered: the topmost entered ancestor T of the
                    # history parent, every part of T the history does not speak about by default entry
                    T = P
                    while T.parent is not None and T.parent.id not in frm:
                        T = T.parent
                    if T is not P and observed == expected:
                        if rem is None:
                            expl = [H.hist_default] if H.hist_default is not None else [P]
                        elif H.hist == "deep":
                            expl = [tree.by_id[x] for x in rem] or [P]
                        else:
                            expl = [tree.by_id[x] for x in rem if tree.by_id[x].parent is P] or [P]
                        exp_t = oracle.enter_set(T, expl)
                        obs_t = {s for s in to if s == T.id or s.startswith(T.id + ".")}
                        res.count("judged.outside-the-history-parent")
                        if obs_t != exp_t:
                            bad("C11:%s:%s:wrong-configuration-outside-the-history-parent" % (kind, how),
                                "history %s of %s entered through %s: expected %s, observed %s" % (
                                    H.id, P.id, T.id, sorted(exp_t - obs_t), sorted(obs_t - exp_t)),
                                {"from": sorted(frm)})
                    if observed != expected:
                        bad("C11:%s:%s:wrong-subconfiguration" % (kind, how),
                            "history %s (%s) of %s: expected %s inside the parent, observed %s" % (
                                H.id, how, P.id, sorted(expected), sorted(observed)),
                            {"from": sorted(frm)})
                    else:
                        for sid in observed:
                            n = entries.count(sid)
                            if n != 1:
                                bad("C11:%s:%s:restored-state-entered-%d-times" % (kind, how, n),
                                    "restored state %s shows %d entries in the history "
                                    "transition" % (sid, n))
                                break
            # shadow update: parents with a history child that left the configuration
            for n in tree.order:
                if n.kind == "history":
                    P = n.parent
                    if P.id in frm and P.id not in to:
                        S["shadow"][P.id] = {s for s in frm if s.startswith(P.id + ".")}

        def scan(run, st):
            entries = []
            for r in run["rec"].log[st.log_from:]:
                if r[0] == "act" and r[1][:3] == "en." and r[1].endswith(".a"):
                    entries.append(r[1][3:-2])
                elif r[0] == "tx":
                    judge_tx(r, entries)
                    entries = []

        def twin_check_sync(run, st):
            snap = S["snap"]
            if snap is None or not S["hist_step"]:
                return
            twin = SyncInterpreter.from_snapshot(snap, run["machine"])
            twin.send(drive._mk_event(st.event))
            res.count("snapshot-twin.compared")
            if config_of(twin) != st.cfg:
                bad("C11:snapshot-restored-history-differs",
                    "after restoring the snapshot the same history transition gives %s, "
                    "uninterrupted run gives %s" % (sorted(config_of(twin) - st.cfg),
                                                    sorted(st.cfg - config_of(twin))))
            twin.stop()

        async def twin_check_async(run, st):
            snap = S["snap"]
            if snap is None or not S["hist_step"]:
                return
            twin = Interpreter.from_snapshot(snap, run["machine"])
            await twin.start()
            await twin.send(drive._mk_event(st.event))
            await drain(twin)
            res.count("snapshot-twin.compared")
            if config_of(twin) != st.cfg:
                bad("C11:snapshot-restored-history-differs",
                    "after restoring the snapshot the same history transition gives a different "
                    "configuration (async)")
            await twin.stop()

        def on_step_sync(run, st):
            if isinstance(st.extra, Exception):
                res.count("raised." + type(st.extra).__name__)
                return True
            S["hist_step"] = False
            scan(run, st)
            if st.phase == "send" and run["interp"].status == "running":
                twin_check_sync(run, st)
            S["snap"] = run["interp"].get_snapshot() if run["interp"].status == "running" else None
            return S["bad"] is not None

        async def on_step_async(run, st):
            if isinstance(st.extra, Exception):
                res.count("raised." + type(st.extra).__name__)
                return True
            S["hist_step"] = False
            scan(run, st)
            if st.phase == "send" and run["interp"].status == "running":
                await twin_check_async(run, st)
            S["snap"] = run["interp"].get_snapshot() if run["interp"].status == "running" else None
            return S["bad"] is not None

        if engine == "sync":
            run = drive.run_sync(case, nev, erng, on_step_sync)
        else:
            run = drive.run_async(case, nev, erng, on_step_async)
        if idx % 500 == 0 and engine == "sync":
            res.sample({"engine": engine, "events": run["events"][:8], "machine": plan_summary(case)})
        if S["bad"] is not None:
            key, what, extra = S["bad"]
            w = {"engine": engine, "events": run["events"], "plan": case.plan}
            w.update(extra)
            res.violation(key, what, w, case={"idx": idx, "engine": engine})


def failed_history_transition_then_retry(res: Result, engine, hist, shape, fails):
    """A history transition that is aborted (missing action / unresolvable sibling transition of the
    same event) must not consume or alter what history remembers: the next, successful history
    transition restores the sub-configuration that was last active."""
    if shape == "compound":
        P = {"initial": "a", "states": {"a": {"on": {"NEXT": "b"}}, "b": {"initial": "b1", "states": {
            "b1": {"on": {"DEEPER": "b2"}}, "b2": {}}},
            "hist": {"type": "history", "history": hist}}, "on": {"LEAVE": "#m.o"}}
        steps = ["NEXT", "DEEPER", "LEAVE"]
        want = {"m.p", "m.p.b", "m.p.b.b2"} if hist == "deep" else {"m.p", "m.p.b", "m.p.b.b1"}
    else:
        P = {"type": "parallel", "states": {
            "r1": {"initial": "a", "states": {"a": {"on": {"NEXT": "b"}}, "b": {}}},
            "r2": {"initial": "x", "states": {"x": {"on": {"STEP": "y"}}, "y": {}}},
            "hist": {"type": "history", "history": hist}}, "on": {"LEAVE": "#m.o"}}
        steps = ["NEXT", "STEP", "LEAVE"]
        want = {"m.p", "m.p.r1", "m.p.r2", "m.p.r1.b", "m.p.r2.y"} if hist == "deep" else \
            {"m.p", "m.p.r1", "m.p.r2", "m.p.r1.a", "m.p.r2.x"}
    o = {"on": {"BADBACK": {"target": "#m.p.hist", "actions": ["not_implemented_anywhere"]},
                "BACK": {"target": "#m.p.hist"}}}
    cfg = {"id": "m", "initial": "p", "states": {"p": P, "o": o}}
    machine = create_machine(cfg, logic=MachineLogic())
    seq = steps + ["BADBACK"] * fails + ["BACK"]
    out = {}
    if engine == "sync":
        it = SyncInterpreter(machine).start()
        for ev in seq:
            try:
                it.send(ev)
            except Exception as x:  # noqa: BLE001
                out.setdefault("raised", []).append(type(x).__name__)
        out["cfg"] = config_of(it)
        it.stop()
    else:
        async def body():
            it = Interpreter(machine)
            await it.start()
            for ev in seq:
                await it.send(ev)
                await drain(it)
            out["cfg"] = config_of(it)
            await it.stop()
        run_virtual(body)
    res.evaluations += 1
    res.count("failed-history-then-retry." + engine)
    res.hashes.add(h(["failed-hist", engine, hist, shape, fails]))
    got = {s for s in out["cfg"] if s == "m.p" or s.startswith("m.p.")}
    if got != want:
        res.violation("C11:%s-%s:history-lost-after-an-aborted-history-transition" % (hist, shape),
                      "after %d aborted history transition(s) the retry restored %s, expected %s" % (
                          fails, sorted(got), sorted(want)),
                      {"engine": engine, "events": seq, "config": cfg, "raised": out.get("raised")})


def run_chunk(spec):
    observe.quiet_logs()
    res = Result()
    only = spec.get("only_case")
    if only:
        run_case(res, dict(spec, only_engine=only.get("engine")), only["idx"])
        return res.to_json()
    base = spec["chunk"] * 100000
    wd = Watchdog(res, 400.0)
    for j in range(spec["n"]):
        wd.arm("idx=%d" % (base + j))
        run_case(res, spec, base + j)
    k = 0
    for engine in ("sync", "async"):
        for hist in ("shallow", "deep"):
            for shape in ("compound", "parallel"):
                for fails in (1, 2):
                    if k % 16 == spec["chunk"] % 16:
                        wd.arm("failed history %s %s %s" % (engine, hist, shape))
                        failed_history_transition_then_retry(res, engine, hist, shape, fails)
                    k += 1
    wd.disarm()
    return res.to_json()


def quota(counters, tier):
    out = []
    need = ["judged.shallow-compound.restore", "judged.deep-compound.restore",
            "judged.shallow-parallel.restore", "judged.deep-parallel.restore",
            "judged.shallow-compound.parent-entry", "judged.deep-parallel.parent-entry",
            "judged.shallow-compound.default-target", "snapshot-twin.compared",
            "judged.outside-the-history-parent", "failed-history-then-retry.sync",
            "failed-history-then-retry.async"]
    for k in need:
        if counters.get(k, 0) == 0:
            out.append("monitor-never-reached:" + k)
    return out
