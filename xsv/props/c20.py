"""C20 — event descriptors: exact > partial > wildcard; internal private; null forbids.

Exhaustive enumeration over a bounded alphabet; oracle = oracle.match_descriptors
+ the statement's walk (first enabled candidate in descriptor order, null stops).
"""
from __future__ import annotations

import itertools
import time

from .. import observe, oracle
from ..observe import (Event, Interpreter, MachineLogic, SyncInterpreter, create_machine, drain,
                       run_virtual)
from .common import Result, Watchdog, h, rng_for

ID = "C20"
LEVEL = "exploration"
TECHNIQUE = ("runtime monitoring with exhaustive input enumeration: every (event type, descriptor "
             "key set, variant, level) within the bound is delivered to the real engine and the "
             "fired marker is compared with a reference matcher")
LEVEL_TEXT = ("complete enumeration of the bounded descriptor space (thorough) / its size<=2 "
              "sub-space (quick); engine-raised internal events checked on real timers, services "
              "and completions")
LEVEL_NOTE = "trusted: oracle.match_descriptors (20 lines) and the level walk in expected()"
RULE = ("event types = all dot-joined words of length<=3 over {a,b} (14); keys = 14 exact + 6 "
        "partial + '*'; key sets of size<=K per level, each key unguarded / guard-true / "
        "guard-false / null; 1..3 levels of an ancestor chain; one evaluation = one delivery; "
        "non-trivial = >=2 matching keys on the chain or a null/false candidate reached; distinct "
        "= (levels, event)")
ASSUMPTIONS = ["user-sent look-alikes of internal events (e.g. 'done.a') are run and counted, "
               "not judged",
               "transitions are targetless so one interpreter serves all 14 deliveries"]
EXHAUSTIVE = {"quick": True, "thorough": True}

WORDS = ["a", "b"]
ETYPES = [".".join(w) for n in (1, 2, 3) for w in itertools.product(WORDS, repeat=n)]
PARTIALS = [".".join(w) + ".*" for n in (1, 2) for w in itertools.product(WORDS, repeat=n)]
KEYS = ETYPES + PARTIALS + ["*"]
VARIANTS = ["plain", "gT", "gF", "null"]
# guards sharing one NAME but not one verdict: parameterised predicates and composites
XVARIANTS = VARIANTS + ["pT", "pF", "nT", "nF"]
XGUARD = {"gT": "gT", "gF": "gF", "pT": {"type": "gp", "params": {"v": True}},
          "pF": {"type": "gp", "params": {"v": False}}, "nT": {"type": "not", "children": ["gF"]},
          "nF": {"type": "not", "children": ["gT"]}}
PASSES = ("plain", "gT", "pT", "nT")
NCHUNKS = 16


def chunks(tier, seed):
    return [{"name": f"C20-{tier}-{i}", "prop": ID, "tier": tier, "seed": seed, "chunk": i,
             "timeout": 900 if tier == "quick" else 3000} for i in range(NCHUNKS)]


def level_sets(max_size):
    """All (key, variant) sets of size 1..max_size for one level."""
    for size in range(1, max_size + 1):
        for ks in itertools.combinations(KEYS, size):
            for vs in itertools.product(VARIANTS, repeat=size):
                yield tuple(zip(ks, vs))


def build(levels):
    """levels: list (deepest first) of tuples of (key, variant). Returns machine config."""
    names = ["c", "p"]

    def on_of(li, lv):
        on = {}
        for key, var in lv:
            if var == "null":
                on[key] = None
            else:
                d = {"actions": [f"mk|{li}|{key}"]}
                if var in XGUARD:
                    d["guard"] = XGUARD[var]
                on[key] = d
        return on

    cfg = {"id": "m", "initial": "p", "states": {"p": {"initial": "c", "states": {"c": {}}}}}
    tgt = [cfg["states"]["p"]["states"]["c"], cfg["states"]["p"], cfg]
    for li, lv in enumerate(levels):
        if lv:
            tgt[li]["on"] = on_of(li, lv)
    return cfg


def expected(levels, etype):
    """Marker expected to fire for `etype`, or None."""
    for li, lv in enumerate(levels):
        d = dict(lv)
        for k in oracle.match_descriptors(d.keys(), etype):
            var = d[k]
            if var == "null":
                return None
            if var in PASSES:
                return f"mk|{li}|{k}"
    return None


class _Names(dict):
    """logic.actions that answers every 'mk|..' name with one recording closure."""

    def __init__(self, sink):
        super().__init__()
        self["_nonempty"] = lambda i, c, e, a: None  # MachineLogic drops a falsy dict
        self.sink = sink

    def get(self, k, default=None):
        if isinstance(k, str) and k.startswith("mk|"):
            sink = self.sink
            return lambda i, c, e, a, _k=k: sink.append(_k)
        return default


def machine_via_python(levels, fired):
    """The same machine written with the Python front-end (State objects, build_machine)."""
    from xstate_statemachine import State, build_machine
    from xstate_statemachine import pythonic as py
    cfg = build(levels)
    ons = [cfg["states"]["p"]["states"]["c"].get("on"), cfg["states"]["p"].get("on"), cfg.get("on")]
    c = State("c", initial=True, **({"on": ons[0]} if ons[0] else {}))
    p = State("p", initial=True, states=[c], **({"on": ons[1]} if ons[1] else {}))
    root = State("", on=ons[2]) if ons[2] else None
    names = sorted({a for on in ons if on for d in on.values() if d for a in d.get("actions", [])})
    acts = [py.action(n)(lambda i, c_, e, a, _k=n: fired.append(_k)) for n in names]
    grds = [py.guard("gT")(lambda c_, e: True), py.guard("gF")(lambda c_, e: False),
            py.guard("gp")(lambda c_, e, params: bool(params["v"]))]
    return build_machine(id="m", states=[p], actions=acts, guards=grds, root=root)


def deliver_all(levels, res: Result, engine="sync", extra_events=(), python=False):
    fired = []
    logic = MachineLogic(actions=_Names(fired),
                         guards={"gT": lambda c, e: True, "gF": lambda c, e: False,
                                 "gp": lambda c, e, params: bool(params["v"])})
    machine = machine_via_python(levels, fired) if python else create_machine(build(levels), logic=logic)
    results = {}
    evs = list(ETYPES) + list(extra_events)
    if engine == "sync":
        it = SyncInterpreter(machine).start()
        for e in evs:
            del fired[:]
            it.send(Event(type=e))
            results[e] = list(fired)
        it.stop()
    else:
        async def body():
            it = Interpreter(machine)
            await it.start()
            for e in evs:
                del fired[:]
                await it.send(Event(type=e))
                await drain(it)
                results[e] = list(fired)
            await it.stop()
        run_virtual(body)
    return results


def judge(levels, results, res: Result, engine):
    for e in ETYPES:
        exp = expected(levels, e)
        got = results[e]
        res.evaluations += 1
        nmatch = sum(len(oracle.match_descriptors(dict(lv).keys(), e)) for lv in levels)
        if nmatch >= 2:
            res.count("deliveries.multi-match")
            res.hashes.add(h([levels, e]))
        if (exp is None and got) or (exp is not None and got != [exp]):
            kinds = _mech(levels, e, exp, got)
            res.violation("C20:" + kinds,
                          "event %r with levels %r fired %r, expected %r" % (e, levels, got, exp),
                          {"levels": levels, "event": e, "fired": got, "expected": exp,
                           "engine": engine})


def _kind(key):
    return "wildcard" if key == "*" else ("partial" if key.endswith(".*") else "exact")


def _mech(levels, e, exp, got):
    g = got[0].split("|") if got else None
    x = exp.split("|") if exp else None
    if g is None:
        return "expected-%s-handler-did-not-fire" % _kind(x[2])
    if x is None:
        d = [dict(lv) for lv in levels]
        return "handler-fired-%s-although-%s" % (
            _kind(g[2]), "null-forbids" if any(
                v == "null" for lv in levels for k, v in lv
                if k in oracle.match_descriptors(dict(lv).keys(), e)) else "nothing-enabled")
    if g[1] != x[1]:
        return "wrong-level-%s-instead-of-%s" % (_kind(g[2]), _kind(x[2]))
    return "wrong-priority-%s-over-%s" % (_kind(g[2]), _kind(x[2]))


# ---------------------------------------------------------------------------
# engine-raised internal events
# ---------------------------------------------------------------------------
def internal_cases(res: Result):
    """Real done.state / done.invoke / error.platform / after events vs wildcard & partial keys."""
    fired = []

    def mk(name):
        return lambda i, c, e, a, _n=name: fired.append(_n)

    wild = {"*": {"actions": ["wild"]}, "done.*": {"actions": ["p_done"]},
            "done.state.*": {"actions": ["p_done_state"]}, "done.invoke.*": {"actions": ["p_done_inv"]},
            "error.*": {"actions": ["p_error"]}, "error.platform.*": {"actions": ["p_err_plat"]},
            "after.*": {"actions": ["p_after"]}, "xstate.*": {"actions": ["p_xstate"]}}
    names = ["wild", "p_done", "p_done_state", "p_done_inv", "p_error", "p_err_plat", "p_after",
             "p_xstate", "exact_done", "exact_inv", "exact_err", "exact_after", "exact_esc",
             "esc_now"]

    def svc_ok(i, c, e):
        return 7

    def svc_bad(i, c, e):
        raise RuntimeError("boom")

    child_cfg = {"id": "kid", "initial": "k", "states": {"k": {"entry": [
        {"type": "xstate.escalate", "params": {"error": "E"}}]}}}

    def make(with_wild, exact=True):
        w = dict(wild) if with_wild else {}
        cfg = {
            "id": "m", "initial": "idle", "on": dict(w),
            "states": {
                "idle": {"on": dict(w, GO_DONE="comp", GO_INV="inv", GO_ERR="err", GO_AFT="aft",
                                    GO_ESC="esc")},
                "comp": {"initial": "x", "on": dict(w),
                         "states": {"x": {"on": dict(w), "always": "f"}, "f": {"type": "final"}},
                         "onDone": {"target": "idle", "actions": ["exact_done"]}},
                "inv": {"on": dict(w), "invoke": {"src": "ok", "id": "I1", "onDone": {
                    "target": "idle", "actions": ["exact_inv"]}}},
                "err": {"on": dict(w), "invoke": {"src": "bad", "id": "I2", "onError": {
                    "target": "idle", "actions": ["exact_err"]}}},
                "aft": {"on": dict(w), "after": {"5": {"target": "idle", "actions": ["exact_after"]}}},
                "esc": {"on": dict(w, **{"xstate.error.actor.m:kid1": {
                    "target": "idle", "actions": ["exact_esc"]}}),
                        "entry": [{"type": "xstate.spawnChild",
                                   "params": {"src": "kid", "id": "kid1"}}]},
            }}
        if not exact:
            # nobody names the engine-raised event: it must then be nobody's business at all
            del cfg["states"]["comp"]["onDone"]
            del cfg["states"]["inv"]["invoke"]["onDone"]
            del cfg["states"]["esc"]["on"]["xstate.error.actor.m:kid1"]
        logic = MachineLogic(actions={n: mk(n) for n in names},
                             services={"ok": svc_ok, "bad": svc_bad,
                                       "kid": create_machine(child_cfg, logic=MachineLogic())})
        return create_machine(cfg, logic=logic)

    scen = [("GO_DONE", "exact_done", "done.state"), ("GO_INV", "exact_inv", "done.invoke"),
            ("GO_ERR", "exact_err", "error.platform"), ("GO_AFT", "exact_after", "after"),
            ("GO_ESC", "exact_esc", "xstate.error.actor")]

    def check(engine, ev, exact, fam, with_wild):
        res.evaluations += 1
        res.count("internal.%s.%s" % (engine, fam))
        res.hashes.add(h([engine, fam, with_wild]))
        got = list(fired)
        if exact not in got:
            res.violation("C20:internal-%s-exact-handler-did-not-fire" % fam,
                          "%s: exact handler for engine-raised %s did not run (fired %r)" % (
                              engine, fam, got), {"engine": engine, "fired": got})
        stray = [g for g in got if g != exact]
        if stray:
            res.violation("C20:internal-%s-caught-by-%s" % (fam, "wildcard" if "wild" in stray
                                                             else "partial"),
                          "%s: engine-raised %s event also ran %r" % (engine, fam, stray),
                          {"engine": engine, "fired": got})

    # without an exact handler: wildcards and partial keys are all there is, and none may fire
    for ev, exact, fam in scen:
        if fam not in ("done.state", "done.invoke", "xstate.error.actor"):
            continue
        for engine in ("sync", "async"):
            del fired[:]
            if engine == "sync":
                it = SyncInterpreter(make(True, exact=False)).start()
                it.send(ev)
                time.sleep(0.08 if fam == "xstate.error.actor" else 0.0)
                it.stop()
            else:
                async def body0():
                    import asyncio
                    it2 = Interpreter(make(True, exact=False))
                    await it2.start()
                    await it2.send(ev)
                    await drain(it2)
                    await asyncio.sleep(0.05)
                    await drain(it2)
                    await it2.stop()
                run_virtual(body0)
            res.evaluations += 1
            res.count("internal-unhandled.%s.%s" % (engine, fam))
            if fired:
                res.violation("C20:unhandled-internal-%s-caught-by-%s" % (
                    fam, "wildcard" if "wild" in fired else "partial"),
                    "%s: engine-raised %s event that nobody names ran %r" % (engine, fam, fired),
                    {"engine": engine, "fired": list(fired)})
    for with_wild in (True, False):
        for ev, exact, fam in scen:
            # sync
            del fired[:]
            it = SyncInterpreter(make(with_wild)).start()
            it.send(ev)
            if fam in ("after", "xstate.error.actor"):
                t0 = time.time()
                while exact not in fired and time.time() - t0 < 3.0:
                    time.sleep(0.005)
            check("sync", ev, exact, fam, with_wild)
            it.stop()
            # async
            del fired[:]

            async def body():
                import asyncio
                it2 = Interpreter(make(with_wild))
                await it2.start()
                await it2.send(ev)
                await drain(it2)
                await asyncio.sleep(0.05)
                await drain(it2)
                check("async", ev, exact, fam, with_wild)
                await it2.stop()
            run_virtual(body)


def internal_exact_on_keys(res: Result):
    """An engine-raised event still has a NAME: an identical key in a state's `on` map (the state that
    raised it or an ancestor) is an exact descriptor and handles it; `null` there forbids it for the
    ancestors; partial keys and '*' next to it stay blind."""
    fired = []

    def mk(n):
        return lambda i, c, e, a, _n=n: fired.append(_n)

    def svc_ok(i, c, e):
        return 7

    def svc_bad(i, c, e):
        raise RuntimeError("boom")

    async def svc_later(i, c, e):
        import asyncio
        await asyncio.sleep(0.003)
        return 8
    fams = {
        "done.invoke": ("done.invoke.I1", {"invoke": {"src": "ok", "id": "I1"}}),
        # (a failure nobody declares onError for fails the machine, and done.state.* is raised only
        #  for states that declare onDone - C09/C10: those two families have no on-key-only form)
        "done.invoke/slow": ("done.invoke.I3", {"invoke": {"src": "ok_later", "id": "I3"}}),
    }
    blind = {"*": {"actions": ["wild"]}, "done.*": {"actions": ["partial"]}, "error.*": {"actions": ["partial"]},
             "done.invoke.*": {"actions": ["partial"]}, "error.platform.*": {"actions": ["partial"]},
             "done.state.*": {"actions": ["partial"]}}
    names = ["wild", "partial", "exact@state", "exact@parent", "exact@root", "second"]
    for fam, (key, wbody) in fams.items():
        for level in ("state", "parent", "root", "null@state", "null@parent", "guarded-first"):
            for with_blind in (False, True):
                work = dict(wbody)
                won = dict(blind) if with_blind else {}
                pon = dict(blind) if with_blind else {}
                ron = {}
                expect = None
                if level == "state":
                    won[key] = {"actions": ["exact@state"]}
                    pon[key] = {"actions": ["exact@parent"]}
                    expect = ["exact@state"]
                elif level == "parent":
                    pon[key] = {"actions": ["exact@parent"]}
                    ron[key] = {"actions": ["exact@root"]}
                    expect = ["exact@parent"]
                elif level == "root":
                    ron[key] = {"actions": ["exact@root"]}
                    expect = ["exact@root"]
                elif level == "null@state":
                    won[key] = None
                    pon[key] = {"actions": ["exact@parent"]}
                    ron[key] = {"actions": ["exact@root"]}
                    expect = []
                elif level == "null@parent":
                    pon[key] = None
                    ron[key] = {"actions": ["exact@root"]}
                    expect = []
                else:
                    won[key] = [{"guard": "no", "actions": ["exact@state"]}, {"actions": ["second"]}]
                    expect = ["second"]
                work["on"] = won
                cfg = {"id": "m", "initial": "idle", "on": ron, "states": {
                    "idle": {"on": {"GO": "w"}},
                    "w": {"initial": "work", "on": pon, "states": {"work": work}}}}
                for engine in ("sync", "async"):
                    del fired[:]
                    machine = create_machine(cfg, logic=MachineLogic(
                        actions={n: mk(n) for n in names}, guards={"no": lambda c, e: False},
                        services={"ok": svc_ok, "bad": svc_bad,
                                  "ok_later": (svc_ok if engine == "sync" else svc_later)}))
                    status = [None]
                    if engine == "sync":
                        it = SyncInterpreter(machine).start()
                        it.send("GO")
                        status[0] = it.status
                        it.stop()
                    else:
                        async def body():
                            import asyncio
                            it2 = Interpreter(machine)
                            await it2.start()
                            await it2.send("GO")
                            await drain(it2)
                            await asyncio.sleep(0.01)
                            await drain(it2)
                            status[0] = it2.status
                            await it2.stop()
                        run_virtual(body)
                    res.evaluations += 1
                    res.count("internal-exact-on-key.%s.%s" % (engine, fam))
                    res.hashes.add(h([fam, level, with_blind, engine]))
                    got = list(fired)
                    wit = {"engine": engine, "family": fam, "key": key, "level": level, "config": _jsonable_cfg(cfg),
                           "fired": got, "expected": expect, "status": status[0]}
                    if got != expect:
                        stray = [g for g in got if g in ("wild", "partial")]
                        if stray:
                            kind = "internal-%s-caught-by-%s" % (fam, "wildcard" if "wild" in stray else "partial")
                        elif expect == []:
                            kind = "null-on-exact-internal-key-did-not-forbid/%s" % fam
                        elif not got:
                            kind = "exact-on-key-for-internal-%s-did-not-fire" % fam
                        else:
                            kind = "wrong-handler-for-internal-%s" % fam
                        res.violation("C20:" + kind,
                                      "%s: engine-raised %s with the exact key at %s%s ran %r, expected %r" % (
                                          engine, key, level, " (next to partial keys and '*')" if with_blind else "",
                                          got, expect), wit)


def _jsonable_cfg(v):
    if isinstance(v, dict):
        return {k: _jsonable_cfg(x) for k, x in v.items()}
    if isinstance(v, list):
        return [_jsonable_cfg(x) for x in v]
    return v


def lookalikes(res: Result):
    """User-sent events that merely look internal: run, counted, not judged."""
    levels = [(("*", "plain"),), (("done.*", "plain"),), ()]
    r = deliver_all(levels, res, "sync", extra_events=["done.a", "error.x", "after.1", "xstate.q"])
    for e in ("done.a", "error.x", "after.1", "xstate.q"):
        res.count("lookalike.%s.%s" % (e, "caught" if r[e] else "ignored"))


def run_chunk(spec):
    observe.quiet_logs()
    res = Result()
    tier, ci = spec["tier"], spec["chunk"]
    wd = Watchdog(res, 400.0)
    wd.arm("enumeration")
    n = 0
    # Part 1: one level (deepest), complete to size 2 (quick) / 3 (thorough)
    size1 = 2 if tier == "quick" else 3
    for i, lv in enumerate(level_sets(size1)):
        if i % NCHUNKS != ci:
            continue
        wd.arm("L1:%d" % i)
        levels = [lv, (), ()]
        eng = "async" if (i // NCHUNKS) % 25 == 0 else "sync"
        judge(levels, deliver_all(levels, res, eng), res, eng)
        res.count("configs.one-level")
        if n < 1 and ci == 0:
            res.sample({"levels": levels, "events": ETYPES, "config": build(levels)})
        n += 1
    # Part 2: two levels, sizes (<=1, <=1) complete plus (2, 1 unguarded) in quick,
    # (<=2, <=1)+(<=1,<=2) in thorough
    def two_level():
        a1 = list(level_sets(1))
        a2 = list(level_sets(2)) if tier == "thorough" else a1
        for x in a2:
            for y in a1:
                yield [x, y, ()]
        if tier == "thorough":
            for x in a1:
                for y in a2:
                    if len(y) == 2:
                        yield [x, y, ()]
        else:
            # two candidates in the child x one unguarded handler in the parent: which of the
            # child's candidates consumes, passes or blocks the event decides whether the parent runs
            for x in level_sets(2):
                if len(x) == 2:
                    for y in a1:
                        if y[0][1] == "plain":
                            yield [x, y, ()]
    for i, levels in enumerate(two_level()):
        if i % NCHUNKS != ci:
            continue
        if i % 4096 == ci:
            wd.arm("L2:%d" % i)
        judge(levels, deliver_all(levels, res, "sync"), res, "sync")
        res.count("configs.two-level")
    # Part 3: three levels, size 1 each: complete
    a1 = list(level_sets(1))
    stride = 1 if tier == "thorough" else 7
    for i, (x, y, z) in enumerate(itertools.product(a1, a1, a1)):
        if i % NCHUNKS != ci or (i // NCHUNKS) % stride:
            continue
        if i % 4096 == ci:
            wd.arm("L3:%d" % i)
        levels = [x, y, z]
        judge(levels, deliver_all(levels, res, "sync"), res, "sync")
        res.count("configs.three-level")
    # Part 4: sampled sets over the extended variants (same-named guards with different verdicts)
    import random
    xr = random.Random("C20x|%s|%d" % (spec["seed"], ci))
    nx = 600 if tier == "quick" else 12000
    for i in range(nx):
        if i % 500 == 0:
            wd.arm("X:%d" % i)
        levels = []
        for li in range(3):
            size = xr.choice((0, 1, 2, 2, 3)) if li < 2 else xr.choice((0, 0, 1))
            ks = xr.sample(KEYS, size)
            levels.append(tuple((k, xr.choice(XVARIANTS)) for k in sorted(ks, key=KEYS.index)))
        eng = "async" if i % 25 == 0 else "sync"
        viapy = i % 4 == 3
        judge(levels, deliver_all(levels, res, eng, python=viapy), res, eng + ("/python-front-end" if viapy else ""))
        if viapy:
            res.count("configs.through-the-python-front-end")
        res.count("configs.sampled-extended-guards")
        for lv in levels:
            vs = [v for _, v in lv]
            if ("pT" in vs and "pF" in vs) or ("nT" in vs and "nF" in vs):
                res.count("configs.same-guard-name-different-verdict-in-one-state")
    wd.arm("internal")
    if ci == 0:
        internal_cases(res)
        lookalikes(res)
    if ci == 1:
        internal_exact_on_keys(res)
    wd.disarm()
    return res.to_json()


def quota(counters, tier):
    out = []
    for k in ("configs.one-level", "configs.two-level", "configs.three-level",
              "configs.sampled-extended-guards", "configs.same-guard-name-different-verdict-in-one-state",
              "configs.through-the-python-front-end",
              "deliveries.multi-match", "internal.sync.after", "internal.async.after",
              "internal.sync.done.state", "internal.async.done.invoke",
              "internal.sync.error.platform", "internal.async.xstate.error.actor",
              "internal-exact-on-key.sync.done.invoke", "internal-exact-on-key.async.done.invoke",
              "internal-exact-on-key.async.done.invoke/slow"):
        if counters.get(k, 0) == 0:
            out.append("monitor-never-reached:" + k)
    return out
