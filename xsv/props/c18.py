"""C18 — config front-end: spellings are equivalent, malformed input fails loudly."""
from __future__ import annotations

import asyncio
import copy
import signal

from .. import drive, fingerprint, gen, observe, oracle
from ..observe import (Event, Interpreter, MachineLogic, Rec, SyncInterpreter, build_logic, create_machine, drain,
                       run_virtual, xs)
from .common import Result, Watchdog, h, plan_summary, rng_for

ID = "C18"
LEVEL = "exploration"
TECHNIQUE = ("runtime monitoring, metamorphic + fault injection: every generated config is rewritten "
             "with a random combination of the documented spelling rewrites and the machine built "
             "from the rewrite is compared with the original by a deep structural fingerprint "
             "(targets resolved to state ids) and by full Recorder traces on both interpreters; "
             "every subtree of a config is replaced by values of the wrong JSON type and the "
             "exception class escaping create_machine/start/send/stop is observed")
LEVEL_TEXT = ("rewritten-vs-original: fingerprints and traces must be identical on every case "
              "explored; corruptions: only library errors may escape; held on the cases explored")
LEVEL_NOTE = ("trusted: the rewrite rules (each is one of the spellings the statement lists), "
              "fingerprint.resolve_id for deciding which target spellings name the same state when "
              "local names are reused, the Recorder; an ACCEPTED corruption is counted, not judged")
RULE = ("random statecharts (compound/parallel/history/final, always, onDone, after, invoke, custom "
        "ids; every third one reusing local state names across parents) x random subsets of "
        "rewrites {string|object|1-list transition, always|'' event, guard|cond, single|list|object "
        "action, str|int delay key, omitted initial of an only child, every target spelling naming "
        "the same state, invoke object|1-list} x 12-20 events x sync+async; corruptions: (path, "
        "wrong-type value) pairs sampled (quick) or enumerated (thorough) over each config x "
        "create/start/send*/stop; one evaluation = one rewritten machine compared or one corrupted "
        "config run; non-trivial = >=3 distinct rewrite kinds applied / corruption inside a "
        "transition, action, guard, invoke or after definition; distinct = hash(plan, rewrite) / "
        "hash(plan, path, value)")
ASSUMPTIONS = ["after delays are 100 s or more in this workload: timers never fire, they are compared "
               "structurally only (C08 covers their behaviour)",
               "'names the offender' is not judged mechanically; the message of every rejection is "
               "required to be non-empty and samples are recorded"]
NCHUNKS = 16
LIBERR = xs.XStateMachineError
DISAGREE = []          # (source, spelling, reference answer, library's static answer)
REWRITES = ("t-string", "t-unlist", "always-as-empty-event", "always-split-over-both-spellings", "cond", "act-unlist", "act-object",
            "delay-int", "initial-omitted", "target-respelled", "invoke-list", "entry-unlist")


def chunks(tier, seed):
    return [{"name": f"C18-{tier}-{i}", "prop": ID, "tier": tier, "seed": seed, "chunk": i,
             "timeout": 900 if tier == "quick" else 3000} for i in range(NCHUNKS)]


def _profile(dup):
    return gen.profile("full", p_dup_key=0.5 if dup else 0.0, p_after=0.1, p_invoke=0.2,
                       p_history=0.3, p_hist_target=0.25, p_custom_id=0.3, max_states=18,
                       p_parallel=0.3, p_guard=0.35, min_fan=1, max_always=3, p_always=0.3)


# ---------------------------------------------------------------------------
# rewrites
# ---------------------------------------------------------------------------
def _states(plan, node):
    """(state dict, tree node) pairs, root first"""
    yield plan, node
    for c in node.children:
        sub = plan.get("states", {}).get(c.key)
        if sub is not None:
            yield from _states(sub, c)


def _marker(t):
    for a in t.get("actions", []) or []:
        if isinstance(a, str) and a.startswith("tr."):
            return a
    return None


def strip_some(plan, case, rng):
    """Pre-pass applied to BOTH sides: some unguarded transitions lose their actions so that the
    bare-string transition spelling has sites to apply to."""
    plan = copy.deepcopy(plan)
    for sd, node in _states(plan, case.tree.root):
        if isinstance(sd.get("exit"), list) and len(sd["exit"]) > 1 and rng.random() < 0.25:
            sd["exit"] = sd["exit"][:1]        # a site for the single-action spelling
        for ev, lst in (sd.get("on") or {}).items():
            for t in lst:
                if "target" in t and "guard" not in t and not t.get("reenter") and rng.random() < 0.3:
                    t["__tr"] = _marker(t)
                    t.pop("actions", None)
    return plan


def rewrite(plan, case, rng, base_machine):
    """-> (new plan, {rewrite kind: count})"""
    plan = copy.deepcopy(plan)
    done = {}

    def hit(k):
        done[k] = done.get(k, 0) + 1
    nodes = {n.id: n for n in case.tree.order}
    mnodes = {}

    def walk_m(n):
        mnodes[n.id] = n
        for c in n.states.values():
            walk_m(c)
    walk_m(base_machine)

    def respell(t, src):
        mk = t.get("__tr") or _marker(t)
        tr = case.by_marker.get(mk) if mk else None
        if tr is None or tr.target is None or "target" not in t or rng.random() < 0.4:
            return
        sp = gen.spellings(tr.source, tr.target)
        # only spellings the library's resolver maps to the same state id (matters when local
        # names are reused across parents: a bare name may then denote a nearer state)
        # (decided by the harness's own reference resolver, oracle.resolve_reference, which follows
        #  the documented resolution order on the generator's tree - not by the library's)
        ok = []
        for k, s in sorted(sp.items()):
            r = oracle.resolve_reference(case.tree, tr.source, s)
            lib = fingerprint.resolve_id(base_machine, mnodes[tr.source.id], s)
            if (r.id if r is not None else None) != (lib if not str(lib).startswith(("UNRESOLVED", "ERROR")) else None):
                DISAGREE.append((tr.source.id, s, r.id if r is not None else None, lib))
            if r is tr.target:
                ok.append(s)
        if ok:
            new = rng.choice(ok)
            if new != t["target"]:
                t["target"] = new
                hit("target-respelled")

    def actions_field(holder, key):
        v = holder.get(key)
        if not isinstance(v, list):
            return
        for i, a in enumerate(v):
            if isinstance(a, str) and rng.random() < 0.25:
                v[i] = {"type": a}
                hit("act-object")
        if len(v) == 1 and rng.random() < 0.5:
            holder[key] = v[0]
            hit("act-unlist" if key == "actions" else "entry-unlist")

    def tlist(holder, key, src):
        v = holder.get(key)
        lst = v if isinstance(v, list) else [v]
        for i, t in enumerate(lst):
            if not isinstance(t, dict):
                continue
            respell(t, src)
            t.pop("__tr", None)
            if "guard" in t and rng.random() < 0.5:
                t["cond"] = t.pop("guard")
                hit("cond")
            actions_field(t, "actions")
            if set(t) == {"target"} and rng.random() < 0.7:
                lst[i] = t["target"]
                hit("t-string")
        if isinstance(v, list):
            if len(lst) == 1 and rng.random() < 0.5:
                holder[key] = lst[0]
                hit("t-unlist")
        else:
            holder[key] = lst[0]
            if rng.random() < 0.3:
                holder[key] = [lst[0]]      # a single object may also be written as a one-element list
                hit("t-unlist")

    for sd, node in _states(plan, case.tree.root):
        for ev in list((sd.get("on") or {})):
            tlist(sd["on"], ev, node)
        if "always" in sd:
            tlist(sd, "always", node)
            r_ = rng.random()
            if r_ < 0.2 and isinstance(sd["always"], list) and len(sd["always"]) >= 2 \
                    and "" not in (sd.get("on") or {}):
                # both spellings on ONE state: the candidates under on[""] come first, then `always`
                cut = rng.randint(1, len(sd["always"]) - 1)
                sd.setdefault("on", {})[""] = sd["always"][:cut]
                sd["always"] = sd["always"][cut:]
                if len(sd["always"]) == 1 and rng.random() < 0.5:
                    sd["always"] = sd["always"][0]
                hit("always-split-over-both-spellings")
            elif r_ < 0.6 and "" not in (sd.get("on") or {}):
                sd.setdefault("on", {})[""] = sd.pop("always")
                hit("always-as-empty-event")
        if "onDone" in sd:
            tlist(sd, "onDone", node)
        for d in list((sd.get("after") or {})):
            tlist(sd["after"], d, node)
            if isinstance(d, str) and d.isdigit() and rng.random() < 0.5:
                # (in place: the declaration order of the delays is part of the machine)
                sd["after"] = {(int(k) if k == d else k): v for k, v in sd["after"].items()}
                hit("delay-int")
        inv = sd.get("invoke")
        if isinstance(inv, dict):
            for k in ("onDone", "onError"):
                if k in inv:
                    tlist(inv, k, node)
            if rng.random() < 0.4:
                sd["invoke"] = [inv]
                hit("invoke-list")
        actions_field(sd, "entry")
        actions_field(sd, "exit")
        if "initial" in sd and len(node.children) == 1 and rng.random() < 0.7:
            del sd["initial"]
            hit("initial-omitted")
    return plan, done


def _clean(plan):
    """drops the harness-only '__tr' notes"""
    if isinstance(plan, dict):
        return {k: _clean(v) for k, v in plan.items() if k != "__tr"}
    if isinstance(plan, list):
        return [_clean(x) for x in plan]
    return plan


# ---------------------------------------------------------------------------
# metamorphic comparison
# ---------------------------------------------------------------------------
def _trace(engine, case, plan, names, nev, events, gtables, rng):
    c2 = copy.copy(case)
    c2.plan = plan
    trace = []

    def on_step(run, st):
        if isinstance(st.extra, Exception):
            trace.append(["exc", type(st.extra).__name__, str(st.extra)[:80]])
            return True
        acts = [(r[1], getattr(r[2], "type", None)) for r in run["rec"].log[st.log_from:] if r[0] == "act"]
        trace.append([h(sorted(st.cfg)), h(st.ctx), h(acts), str(st.status)])
        return False
    f = drive.run_sync if engine == "sync" else drive.run_async
    run = f(c2, nev, rng, on_step, events=events, gtables=gtables, machine_kw={"names": names})
    return trace, run["events"]


def _all_transitions(machine):
    out = []

    def walk(n):
        for ts in n.on.values():
            out.extend(ts)
        for ts in n.after.values():
            out.extend(ts)
        if n.on_done:
            out.append(n.on_done)
        for inv in n.invoke:
            out.extend(inv.on_done)
            out.extend(inv.on_error)
        for c in n.states.values():
            walk(c)
    walk(machine)
    return [t for t in out if t.target_str]


def resolution_census(res, build, rng, witness, idx):
    """Quiescent-point census: each interpreter's own target resolution, asked for every
    transition of the machine in two random orders on ONE interpreter instance, must give the
    state the library's resolver gives for that (source, spelling) - whatever was resolved
    before."""
    for engine, cls, meth in (("sync", SyncInterpreter, "_resolve_target_state_robustly"),
                              ("async", Interpreter, "_resolve_target_state_node")):
        m = build()
        ts = _all_transitions(m)
        # probes: every local state name, written as a plain key on every state (what each denotes
        # depends on WHERE it is written - own descendants first, then outwards)
        from xstate_statemachine.models import TransitionDefinition
        nodes, stack = [], [m]
        while stack:
            n_ = stack.pop()
            nodes.append(n_)
            stack.extend(n_.states.values())
        keys = sorted({n_.key for n_ in nodes if n_.parent is not None})
        for n_ in nodes:
            if n_.parent is None or n_.type == "history":
                continue
            for k_ in keys:
                for sp_ in (k_, "." + k_):
                    try:
                        ts.append(TransitionDefinition(event="PROBE", config={"target": sp_}, source=n_))
                        res.count("census.probe-transitions")
                    except Exception:  # noqa: BLE001
                        pass
        want = {id(t): fingerprint.resolve_id(m, t.source, t.target_str) for t in ts}
        spelt = {id(t): t.target_str for t in ts}
        it = cls(m)
        f = getattr(it, meth, None)
        if f is None:
            res.count("census.method-missing." + engine)
            continue
        for rep in range(2):
            order = list(ts)
            rng.shuffle(order)
            for t in order:
                res.count("census.resolutions." + engine)
                try:
                    got = f(t)
                    gid = got.id if got is not None else None
                except LIBERR as e:
                    gid = "ERROR:" + type(e).__name__
                if gid != want[id(t)] and not str(want[id(t)]).startswith(("UNRESOLVED", "ERROR")):
                    res.violation("C18:interpreter-resolves-spelling-differently/%s" % engine,
                                  "target %r written on %s denotes %s, but the %s interpreter resolved it to "
                                  "%s (after resolving other targets first)" % (
                                      spelt[id(t)], t.source.id, want[id(t)], engine, gid),
                                  witness, case={"idx": idx})
                    return False
    return True


def _norm_fp(fp):
    """spelling-independent view: 'always' is the '' event; an only child is the initial state"""
    return fp


def metamorphic(res, spec, idx, tier):
    dup = idx % 3 == 2
    case = gen.gen_case(rng_for(spec["seed"], ID, spec["chunk"], idx, "case"), _profile(dup))
    rng = rng_for(spec["seed"], ID, spec["chunk"], idx, "rw")
    names = gen.action_names(case.plan)
    base_plan = strip_some(case.plan, case, rng)
    rec = Rec()
    gt0 = {a: True for a in case.atoms}
    try:
        base_machine = create_machine(gen.materialize(_clean(base_plan)),
                                      logic=build_logic(case, rec, gt0, names=names,
                                                        services=observe.build_services(case, rec)))
    except Exception as e:  # noqa: BLE001
        res.count("metamorphic.base-rejected")
        if not isinstance(e, LIBERR):
            res.violation("C18:raw-%s/create/valid-config" % type(e).__name__, repr(e)[:200],
                          {"plan": case.plan}, case={"idx": idx})
        return
    fp0 = fingerprint.machine_fp(base_machine)
    nev = 12 if tier == "quick" else 20
    grng = rng_for(spec["seed"], ID, spec["chunk"], idx, "gt")
    gtables = [drive.rand_gtable(grng, case) for _ in range(nev + 1)]
    erng = rng_for(spec["seed"], ID, spec["chunk"], idx, "ev")
    t0, events = _trace("sync", case, _clean(base_plan), names, nev, None, gtables, erng)
    ta0 = None
    for rep in range(2 if tier == "quick" else 4):
        del DISAGREE[:]
        new_plan, done = rewrite(base_plan, case, rng, base_machine)
        new_plan = _clean(new_plan)
        res.count("reference-resolver.spellings-checked", sum(done.values()) or 1)
        if DISAGREE:
            src, sp_, want_, lib_ = DISAGREE[0]
            res.violation("C18:spelling-resolves-against-the-documented-order",
                          "target %r written on %s: the documented resolution order gives %s, the library's "
                          "resolver gives %s" % (sp_, src, want_, lib_),
                          {"base": _clean(base_plan)}, case={"idx": idx})
            return
        res.evaluations += 1
        for k, v in done.items():
            res.count("rewrites." + k, v)
        if len(done) >= 3:
            res.hashes.add(h([case.plan, sorted(done.items()), rep]))
        if dup:
            res.count("metamorphic.shared-local-names")
        witness = {"base": _clean(base_plan), "rewritten": new_plan, "applied": done}
        try:
            m1 = create_machine(gen.materialize(new_plan),
                                logic=build_logic(case, Rec(), gt0, names=names,
                                                  services=observe.build_services(case, rec)))
        except Exception as e:  # noqa: BLE001
            res.violation("C18:rewritten-config-rejected/%s" % type(e).__name__,
                          "an equivalent spelling of an accepted config was rejected: %r" % (e,),
                          witness, case={"idx": idx})
            return
        d = fingerprint.diff(fp0, fingerprint.machine_fp(m1))
        res.count("compared.fingerprints")
        if d:
            kind = d[0].split(":")[0].split("/")[-1]
            res.violation("C18:rewrite-changes-structure/%s" % kind,
                          "machines built from two spellings differ: %s" % d[:3], witness, case={"idx": idx})
            return
        def build(_p=new_plan):
            return create_machine(gen.materialize(_p),
                                  logic=build_logic(case, Rec(), gt0, names=names,
                                                    services=observe.build_services(case, rec)))
        if not resolution_census(res, build, rng, witness, idx):
            return
        t1, _ = _trace("sync", case, new_plan, names, nev, events, gtables, erng)
        res.count("compared.traces.sync")
        if t1 != t0:
            step = next((i for i, (x, y) in enumerate(zip(t0, t1)) if x != y), min(len(t0), len(t1)))
            res.violation("C18:rewrite-changes-behaviour/sync", "traces differ at step %d: %s vs %s" % (
                step, t0[step:step + 1], t1[step:step + 1]), dict(witness, events=events), case={"idx": idx})
            return
        if rep == 0:
            ta0, _ = _trace("async", case, _clean(base_plan), names, nev, events, gtables, erng)
            ta1, _ = _trace("async", case, new_plan, names, nev, events, gtables, erng)
            res.count("compared.traces.async")
            if ta1 != ta0:
                step = next((i for i, (x, y) in enumerate(zip(ta0, ta1)) if x != y), min(len(ta0), len(ta1)))
                res.violation("C18:rewrite-changes-behaviour/async", "traces differ at step %d: %s vs %s" % (
                    step, ta0[step:step + 1], ta1[step:step + 1]), dict(witness, events=events),
                    case={"idx": idx})
                return
    if idx % 400 == 0:
        res.sample({"kind": "metamorphic", "machine": plan_summary(case), "applied": done,
                    "events": [e["type"] for e in events][:8]})
    return case, base_plan, names


# ---------------------------------------------------------------------------
# corruption
# ---------------------------------------------------------------------------
WRONG = {
    dict: [None, True, 7, "zz", ["x"], []],
    list: [None, True, 7, "zz", {"k": 1}, {}],
    str: [None, True, 7, 1.5, ["x"], {"k": 1}, [], {}],
    int: ["zz", None, ["x"], {"k": 1}, 1.5],
    bool: ["zz", None, 7, ["x"], {"k": 1}],
    float: ["zz", None, ["x"], {"k": 1}],
}


def paths(cfg, pre=()):
    """every subtree position (container path) of a JSON-like config"""
    if isinstance(cfg, dict):
        for k, v in cfg.items():
            yield pre + (k,)
            yield from paths(v, pre + (k,))
    elif isinstance(cfg, list):
        for i, v in enumerate(cfg):
            yield pre + (i,)
            yield from paths(v, pre + (i,))


def get_at(cfg, path):
    for k in path:
        cfg = cfg[k]
    return cfg


def set_at(cfg, path, val):
    cfg = copy.deepcopy(cfg)
    cur = cfg
    for k in path[:-1]:
        cur = cur[k]
    cur[path[-1]] = val
    return cfg


STRUCT = {"states", "on", "after", "invoke", "always", "onDone", "onError", "entry", "exit", "actions",
          "guard", "cond", "target", "initial", "type", "history", "id", "context", "tags", "meta",
          "params", "src", "input", "reenter", "maxIterations", "output", "description", "event",
          "guards", "delay"}


def slot(path):
    """mechanism-level name of a config position: state names, events, delays, indices abstracted"""
    out = []
    prev = None
    for k in path:
        if isinstance(k, int):
            out.append("[]")
        elif prev == "states":
            out.append("*")
        elif prev in ("on",):
            out.append("<ev>")
        elif prev == "after":
            out.append("<delay>")
        elif prev in ("context", "params", "input", "meta"):
            out.append("<key>")
            prev = prev
            continue
        elif k in STRUCT:
            out.append(k)
        else:
            out.append("<key>")
        prev = k if isinstance(k, str) else prev
    # keep the tail: where in a state the corruption sits
    tail = [x for x in out if x != "*" and x != "states"]
    return ".".join(tail[-4:]) or "root"


class _Hang(BaseException):      # not an Exception: no `except Exception` on the way (the library's or threading's) may take it for its own
    pass


def _alarm(signum, frame):
    raise _Hang()


def run_corrupted(res, case, cfg, names, engine, witness, idx):
    """create -> start -> one send per event type -> stop; returns outcome label"""
    rec = Rec()
    gt = {a: True for a in case.atoms}
    logic = build_logic(case, rec, gt, names=names, services=observe.build_services(case, rec))
    phase = "create"

    def raw(e):
        res.violation("C18:raw-%s/%s/%s<-%s" % (type(e).__name__, phase, witness["slot"], witness["vtype"]),
                      "%s escaped %s for a config whose %s was replaced by %r: %s" % (
                          type(e).__name__, phase, "/".join(map(str, witness["path"])), witness["value"],
                          str(e)[:120]), witness, case={"idx": idx})
        return "raw"

    def rejected(e):
        res.count("corruption.rejected-at-" + phase)
        if not str(e).strip():
            res.violation("C18:rejection-without-message/%s" % type(e).__name__,
                          "library error with an empty message", witness, case={"idx": idx})
        elif res.counters.get("corruption.rejected-at-" + phase, 0) % 2000 == 1:
            res.sample({"kind": "rejection", "path": "/".join(map(str, witness["path"])),
                        "value": repr(witness["value"]), "phase": phase,
                        "error": "%s: %s" % (type(e).__name__, str(e)[:160])})
        return "rejected"
    signal.setitimer(signal.ITIMER_REAL, 20.0)
    try:
        try:
            machine = create_machine(cfg, logic=logic)
        except LIBERR as e:
            return rejected(e)
        except _Hang:
            raise
        except Exception as e:  # noqa: BLE001
            return raw(e)
        evs = list(case.events) + ["ZZ"]
        if engine == "sync":
            it = None
            try:
                phase = "interpreter"
                it = SyncInterpreter(machine)
                phase = "start"
                it.start()
                phase = "send"
                for ev in evs:
                    it.send(ev)
                phase = "stop"
                it.stop()
            except LIBERR as e:
                return rejected(e)
            except _Hang:
                raise
            except Exception as e:  # noqa: BLE001
                return raw(e)
            finally:
                try:
                    if it is not None:
                        it.stop()
                except Exception:  # noqa: BLE001
                    pass
        else:
            out = {}

            async def body():
                nonlocal phase
                it = None
                try:
                    phase = "interpreter"
                    it = Interpreter(machine)
                    phase = "start"
                    await it.start()
                    phase = "send"
                    for ev in evs:
                        await it.send(ev)
                        await drain(it, max_yields=300, settle=2)
                    if it.status == "error" and getattr(it, "error", None) is not None \
                            and not isinstance(it.error, LIBERR) \
                            and not isinstance(it.error, observe.ServiceFailure):
                        out["r"] = raw(it.error)
                    phase = "stop"
                    await it.stop()
                except LIBERR as e:
                    out["r"] = rejected(e)
                except _Hang:
                    raise
                except Exception as e:  # noqa: BLE001
                    out["r"] = raw(e)
                finally:
                    try:
                        if it is not None:
                            await it.stop()
                    except Exception:  # noqa: BLE001
                        pass
            run_virtual(body)
            if "r" in out:
                return out["r"]
        res.count("corruption.accepted")
        return "accepted"
    except _Hang:
        res.count("corruption.timeout-inconclusive")
        return "hang"
    finally:
        signal.setitimer(signal.ITIMER_REAL, 0)


def corruption(res, spec, idx, tier, case, plan, names, wd=None):
    rng = rng_for(spec["seed"], ID, spec["chunk"], idx, "corrupt")
    # corrupt a randomly re-spelt config, so every accepted shape of every slot is a site
    rec = Rec()
    try:
        bm = create_machine(gen.materialize(_clean(plan)),
                            logic=build_logic(case, rec, {}, names=names,
                                              services=observe.build_services(case, rec)))
    except Exception:  # noqa: BLE001
        return
    new_plan, _ = rewrite(plan, case, rng, bm)
    cfg = gen.materialize(_clean(new_plan))
    all_paths = [p for p in paths(cfg)]
    pairs = []
    for p in all_paths:
        v = get_at(cfg, p)
        t = bool if isinstance(v, bool) else type(v)
        for w in WRONG.get(t, []):
            pairs.append((p, w))
    if tier == "quick":
        rng.shuffle(pairs)
        pairs = pairs[:120]
    elif len(pairs) > 1500:
        rng.shuffle(pairs)
        pairs = pairs[:1500]
    for j, (p, w) in enumerate(pairs):
        if wd is not None and j % 40 == 0:
            wd.arm("corrupt idx=%d pair=%d" % (idx, j))
        bad = set_at(cfg, p, w)
        sl = slot(p)
        witness = {"path": list(p), "value": w, "slot": sl, "vtype": type(w).__name__,
                   "config": _jsonable(bad)}
        engine = "async" if j % 5 == 4 else "sync"
        r = run_corrupted(res, case, bad, names, engine, witness, idx)
        res.evaluations += 1
        res.count("corruption.runs." + engine)
        if any(k in p for k in ("on", "after", "invoke", "always", "onDone", "entry", "exit")):
            res.hashes.add(h([idx, list(map(str, p)), repr(w)]))


def duplicate_ids(res, spec, idx, case, plan, names):
    """Two states declaring the same custom id (siblings, cousins, or a state and its own descendant)
    are ambiguous: create_machine() must refuse the config with a library error."""
    rng = rng_for(spec["seed"], ID, spec["chunk"], idx, "dupid")
    nodes = [n for n in case.tree.order if n.parent is not None and n.kind != "history"]
    if len(nodes) < 2:
        return
    for rep in range(3):
        a, b = rng.sample(nodes, 2)
        rel = "siblings" if a.parent is b.parent else (
            "ancestor-and-descendant" if a.is_desc_of(b) or b.is_desc_of(a) else "different-branches")
        cfg = gen.materialize(_clean(copy.deepcopy(plan)))

        def sd_of(node):
            sd = cfg
            for x in list(reversed(list(node.ancestors(include_self=True))))[1:]:
                sd = sd["states"][x.key]
            return sd
        sd_of(a)["id"] = "dup_id_x"
        sd_of(b)["id"] = "dup_id_x"
        rec = Rec()
        res.evaluations += 1
        res.count("duplicate-id.configs." + rel)
        res.hashes.add(h([idx, "dupid", a.id, b.id]))
        witness = {"states": [a.id, b.id], "relation": rel, "config": _jsonable(cfg)}
        try:
            create_machine(cfg, logic=build_logic(case, rec, {}, names=names,
                                                  services=observe.build_services(case, rec)))
        except LIBERR as e:
            res.count("duplicate-id.rejected")
            if "dup_id_x" not in str(e):
                res.violation("C18:duplicate-id-rejection-does-not-name-the-id", str(e)[:160], witness,
                              case={"idx": idx})
            continue
        except Exception as e:  # noqa: BLE001
            res.violation("C18:raw-%s/create/duplicate-id" % type(e).__name__, repr(e)[:160], witness,
                          case={"idx": idx})
            continue
        res.violation("C18:duplicate-custom-id-accepted/%s" % rel,
                      "states %s and %s both declare id 'dup_id_x' and create_machine() accepted the config" % (
                          a.id, b.id), witness, case={"idx": idx})


def _groupings(rng, segs):
    """A random way of cutting `segs` into consecutive dotted keys."""
    out, cur = [], [segs[0]]
    for s_ in segs[1:]:
        if rng.random() < 0.5:
            cur.append(s_)
        else:
            out.append(".".join(cur))
            cur = [s_]
    out.append(".".join(cur))
    return out


def _insert_keypath(states, keys):
    node = states
    for i, k in enumerate(keys):
        sd = node.setdefault(k, {})
        if i < len(keys) - 1:
            sd.setdefault("states", {})
            sd.setdefault("initial", keys[i + 1])
            node = sd["states"]


def _all_ids(machine):
    out = []
    stack = [machine]
    while stack:
        n = stack.pop()
        out.append(n.id)
        stack.extend(n.states.values())
    return out


def dotted_key_collisions(res, spec, idx, case, plan, names):
    """State keys containing '.' may build the same fully-qualified id as a nested path.  Two states
    with one id are ambiguous: such a config must be refused; a dotted key that collides with nothing
    must be accepted, and every accepted machine has pairwise distinct state ids."""
    rng = rng_for(spec["seed"], ID, spec["chunk"], idx, "dotted")
    hosts = [n for n in case.tree.order if n.kind in ("compound", "parallel") or n.parent is None]
    hosts = [n for n in hosts if n.children]
    if not hosts:
        return
    for rep in range(4):
        cfg = gen.materialize(_clean(copy.deepcopy(plan)))

        def sd_of(node):
            sd = cfg
            for x in list(reversed(list(node.ancestors(include_self=True))))[1:]:
                sd = sd["states"][x.key]
            return sd
        host = rng.choice(hosts)
        hsd = sd_of(host)
        mode = ("existing-path", "two-groupings", "single-grouping", "two-groupings")[rep]
        expect_reject = mode != "single-grouping"
        if mode == "existing-path":
            # a flat key spelling the path of an existing descendant (depth 2..3) of `host`
            chain = []
            cur = host
            while cur.children and len(chain) < 3:
                kids = [c for c in cur.children if c.kind != "history"]
                if not kids:
                    break
                cur = rng.choice(kids)
                chain.append(cur.key)
            if len(chain) < 2:
                continue
            depth = rng.randint(2, len(chain))
            flat = ".".join(chain[:depth])
            new_states = {}
            first = rng.random() < 0.5
            if first:
                new_states[flat] = {}
            new_states.update(hsd["states"])
            if not first:
                new_states[flat] = {}
            hsd["states"] = new_states
            what = "flat key %r next to the nested path under %s (depth %d)" % (flat, host.id, depth)
            res.count("dotted-keys.existing-path.depth%d" % depth)
        else:
            nseg = rng.randint(2, 4)
            segs = ["zq%d" % k for k in range(nseg)]
            g1 = _groupings(rng, segs)
            if mode == "single-grouping":
                if len(g1) == nseg:
                    g1 = [".".join(segs[:2])] + segs[2:]
                _insert_keypath(hsd["states"], g1)
                what = "keys %r under %s" % (g1, host.id)
                res.count("dotted-keys.single-grouping")
            else:
                g2 = _groupings(rng, segs)
                tries = 0
                while g2 == g1 and tries < 20:
                    g2 = _groupings(rng, segs)
                    tries += 1
                if g2 == g1:
                    continue
                if rng.random() < 0.5:
                    g1, g2 = g2, g1
                _insert_keypath(hsd["states"], g1)
                _insert_keypath(hsd["states"], g2)
                what = "key paths %r and %r under %s" % (g1, g2, host.id)
                div = next(i for i in range(min(len(g1), len(g2))) if g1[i] != g2[i])
                shorter = min(g1[div], g2[div], key=len)
                res.count("dotted-keys.two-groupings.prefix-%s" % ("dotted" if "." in shorter else "plain"))
        res.evaluations += 1
        res.hashes.add(h([idx, "dotted", mode, what]))
        witness = {"what": what, "mode": mode, "config": _jsonable(cfg)}
        rec = Rec()
        try:
            m = create_machine(cfg, logic=build_logic(case, rec, {}, names=names,
                                                      services=observe.build_services(case, rec)))
        except LIBERR as e:
            res.count("dotted-keys.rejected")
            if not expect_reject:
                res.violation("C18:unambiguous-dotted-key-refused", "%s: %s" % (what, str(e)[:120]), witness,
                              case={"idx": idx})
            continue
        except Exception as e:  # noqa: BLE001
            res.violation("C18:raw-%s/create/dotted-key" % type(e).__name__, repr(e)[:160], witness,
                          case={"idx": idx})
            continue
        res.count("dotted-keys.accepted")
        ids = _all_ids(m)
        dup = sorted(i for i in set(ids) if ids.count(i) > 1)
        if dup:
            res.violation("C18:two-states-share-one-id-accepted/%s" % mode,
                          "%s: create_machine() accepted a config in which %d states share the id %s" % (
                              what, ids.count(dup[0]), dup[0]), witness, case={"idx": idx})
        elif expect_reject:
            res.violation("C18:ambiguous-dotted-key-accepted/%s" % mode, what, witness, case={"idx": idx})


def missing_implementations(res, spec, idx):
    """A name the config uses and the logic does not implement is a config the library cannot
    interpret: create_machine(), start() or the first use reports it with a library error - it is
    never decided either way (a guard), skipped (an action) or ignored (a service)."""
    import logging
    from ..observe import LogCapture
    rng = rng_for(spec["seed"], ID, spec["chunk"], idx, "missing")
    kind = ("guard", "guard-in-composite", "action", "service")[idx % 4]
    fired = []

    def mk(n):
        return lambda i, c, e, a, _n=n: fired.append(_n)
    g = "noSuchGuard"
    if kind == "guard-in-composite":
        shape = rng.choice(["and", "or", "not", "not-not", "and-params", "or-nested"])
        g = {"and": {"type": "and", "children": ["gT", "noSuchGuard"]},
             "or": {"type": "or", "children": ["gF", "noSuchGuard"]},
             "not": {"type": "not", "children": ["noSuchGuard"]},
             "not-not": {"type": "not", "children": [{"type": "not", "children": ["noSuchGuard"]}]},
             "and-params": {"type": "and", "params": {"guards": ["gT", {"type": "noSuchGuard"}]}},
             "or-nested": {"type": "or", "children": ["gF", {"type": "and", "children": ["gT", "noSuchGuard"]}]},
             }[shape]
    else:
        shape = "-"
    a = {"on": {"E": [{"target": "b", "actions": ["taken"]}, {"target": "c", "actions": ["fallback"]}]}}
    if kind.startswith("guard"):
        a["on"]["E"][0][rng.choice(["guard", "cond"])] = g
    elif kind == "action":
        site = rng.choice(["entry-of-target", "transition", "exit-of-source"])
        shape = site
        if site == "transition":
            a["on"]["E"][0]["actions"] = ["noSuchAction", "taken"]
        elif site == "exit-of-source":
            a["exit"] = ["noSuchAction"]
    else:
        shape = rng.choice(["invoke", "spawn"])
    b = {"entry": ["in_b"]}
    if kind == "action" and shape == "entry-of-target":
        b["entry"] = ["noSuchAction", "in_b"]
    if kind == "service":
        if shape == "invoke":
            b["invoke"] = {"src": "noSuchService", "onDone": "c"}
        else:
            b["entry"] = [{"type": "xstate.spawnChild", "params": {"src": "noSuchService", "id": "k"}}, "in_b"]
    cfg = {"id": "m", "initial": "a", "states": {"a": a, "b": b, "c": {}}}
    for engine in ("sync", "async"):
        del fired[:]
        seen = {"lib": None, "raw": None, "errors": 0, "status": None}
        logic = MachineLogic(actions={n: mk(n) for n in ("taken", "fallback", "in_b")},
                             guards={"gT": lambda c, e: True, "gF": lambda c, e: False})
        with LogCapture(logging.ERROR) as cap:
            try:
                machine = create_machine(copy.deepcopy(cfg), logic=logic)
                if engine == "sync":
                    it = SyncInterpreter(machine).start()
                    try:
                        it.send("E")
                    finally:
                        seen["status"] = it.status
                        it.stop()
                else:
                    async def body():
                        it2 = Interpreter(machine)
                        await it2.start()
                        try:
                            await it2.send("E")
                            await drain(it2, max_yields=300, settle=2)
                        finally:
                            seen["status"] = it2.status
                            await it2.stop()
                    run_virtual(body)
            except LIBERR as e:
                seen["lib"] = e
            except Exception as e:  # noqa: BLE001
                seen["raw"] = e
            seen["errors"] = cap.count(logging.ERROR)
        res.evaluations += 1
        res.count("missing-implementation.runs.%s.%s" % (kind, engine))
        res.hashes.add(h(["missing", kind, shape, engine]))
        witness = {"kind": kind, "shape": shape, "engine": engine, "config": cfg, "fired": list(fired),
                   "library_error": repr(seen["lib"]), "status": seen["status"], "error_records": seen["errors"]}
        if seen["raw"] is not None:
            res.violation("C18:raw-%s/missing-%s" % (type(seen["raw"]).__name__, kind), repr(seen["raw"])[:160],
                          witness, case={"idx": idx, "missing": True})
            continue
        # (a built-in action that cannot do its work - spawnChild of an unknown service - is contained
        #  like any failing action: the library error is logged at ERROR level, the rest of the action
        #  list is skipped; that is loud, not silent)
        reported = seen["lib"] is not None or seen["status"] == "error" or seen["errors"] > 0
        decided = ("taken" in fired or "fallback" in fired) if kind.startswith("guard") else (
            "in_b" in fired if (kind == "service" or shape == "entry-of-target") else "taken" in fired)
        if not reported:
            res.violation("C18:missing-%s-not-reported/%s" % (kind, engine),
                          "%s (%s) has no implementation: no library error, status %s, actions run %s" % (
                              kind, shape, seen["status"], fired), witness, case={"idx": idx, "missing": True})
        elif kind.startswith("guard") and decided:
            res.violation("C18:missing-guard-decided-either-way/%s" % engine,
                          "guard %s: candidates ran %s although the guard could not be evaluated" % (shape, fired),
                          witness, case={"idx": idx, "missing": True})


def _jsonable(v):
    if isinstance(v, dict):
        return {str(k): _jsonable(x) for k, x in v.items()}
    if isinstance(v, (list, tuple)):
        return [_jsonable(x) for x in v]
    if callable(v):
        return "<callable>"
    return v


def run_chunk(spec):
    observe.quiet_logs()
    res = Result()
    tier, ci = spec["tier"], spec["chunk"]
    wd = Watchdog(res, 400.0)
    signal.signal(signal.SIGALRM, _alarm)
    n = 30 if tier == "quick" else 500
    ncorr = 6 if tier == "quick" else 25
    only = spec.get("only_case")
    idxs = [only["idx"]] if only else [ci * 100000 + j for j in range(n)]
    for j, idx in enumerate(idxs):
        wd.arm("idx=%d" % idx)
        out = metamorphic(res, spec, idx, tier)
        if out is not None and (j < ncorr or only):
            wd.arm("corrupt idx=%d" % idx)
            corruption(res, spec, idx, tier, *out, wd=wd)
        if j < 24 or only:
            missing_implementations(res, spec, idx)
        if out is not None:
            duplicate_ids(res, spec, idx, *out)
            dotted_key_collisions(res, spec, idx, *out)
    wd.disarm()
    return res.to_json()


def quota(counters, tier):
    out = []
    need = ["compared.fingerprints", "compared.traces.sync", "compared.traces.async",
            "metamorphic.shared-local-names", "census.resolutions.sync", "census.resolutions.async",
            "corruption.runs.sync", "corruption.runs.async",
            "corruption.rejected-at-create", "corruption.accepted", "duplicate-id.configs.siblings",
            "duplicate-id.configs.different-branches", "duplicate-id.configs.ancestor-and-descendant",
            "duplicate-id.rejected", "missing-implementation.runs.guard-in-composite.sync",
            "missing-implementation.runs.guard-in-composite.async", "missing-implementation.runs.action.sync",
            "missing-implementation.runs.service.async", "dotted-keys.existing-path.depth2", "dotted-keys.existing-path.depth3",
            "dotted-keys.two-groupings.prefix-dotted", "dotted-keys.two-groupings.prefix-plain",
            "dotted-keys.single-grouping", "dotted-keys.rejected", "dotted-keys.accepted"]
    need += ["rewrites." + k for k in REWRITES]
    for k in need:
        if counters.get(k, 0) == 0:
            out.append("monitor-never-reached:" + k)
    return out
