"""C12 — snapshots are faithful, isolated resume points."""
from __future__ import annotations

import copy
import json
import time

from .. import drive, gen, observe
from ..observe import (Event, Interpreter, MachineLogic, SyncInterpreter, config_of,
                       create_machine, drain, run_virtual, xs)
from .common import Result, Watchdog, h, mk_chunks, plan_summary, rng_for

ID = "C12"
LEVEL = "exploration"
TECHNIQUE = ("runtime monitoring, differential over enumerated crash points: the interpreter "
             "restored from the snapshot taken after every prefix k is run on the rest of the "
             "events beside the uninterrupted run; corruption classes enumerated (every byte "
             "offset, every field x wrong JSON type)")
LEVEL_TEXT = ("every cut point of every generated run is a restore point that is compared on all "
              "later steps; held on the runs explored")
LEVEL_NOTE = ("trusted: Recorder, harness guard tables replayed identically for the twin; machines "
              "carry no after/invoke at the cut (documented exception)")
RULE = ("profiles core/history/effects/done/full x sync+async, every prefix length k, plus double "
        "save/restore cycles and an actor template (spawn/send/stop scripts); one evaluation = one "
        "(run, k) restore compared on all later steps; non-trivial = >=2 later steps with a "
        "configuration change after the cut; distinct = hash(plan, events, k)")
ASSUMPTIONS = ["pending timers and in-flight services are excepted (documented); workloads have "
               "none at the cut",
               "type-corrupted fields: accepted or rejected with a library error; only raw "
               "KeyError/TypeError/AttributeError/ValueError are violations"]

PROFILE_CYCLE = ["core", "history", "effects", "done", "full", "history", "full", "core"]
TOTAL = {"quick": 1600, "thorough": 24000}
NEV = {"quick": 12, "thorough": 16}
LIBERR = xs.XStateMachineError


def chunks(tier, seed):
    return mk_chunks(ID, tier, seed, TOTAL[tier], 16, timeout=900 if tier == "quick" else 3000)


def _korder(v):
    """insertion order of the keys of every dict inside v (observable to user logic: next(iter(d)))"""
    if isinstance(v, dict):
        return [(k, _korder(x)) for k, x in v.items()]
    if isinstance(v, (list, tuple)):
        return [_korder(x) for x in v]
    return None


def _state_of(interp):
    actors = getattr(interp, "_actors", {}) or {}
    try:
        sysids = sorted(interp.system.get_all().keys())
    except Exception:  # noqa: BLE001
        sysids = None
    return {"cfg": config_of(interp), "ctx": copy.deepcopy(interp.context),
            "ctxorder": _korder(interp.context),
            "status": interp.status, "output": copy.deepcopy(interp.output),
            "error": interp.error is not None, "actors": sorted(actors.keys()), "system": sysids,
            "kids": {k: _kid_tree(a) for k, a in sorted(actors.items())}}


def _kid_tree(a):
    """a child's observable state and, below it, its own children (generated ids left out)"""
    below = sorted((_kid_tree(g) for g in (getattr(a, "_actors", {}) or {}).values()), key=repr)
    return (sorted(config_of(a)), copy.deepcopy(a.context), a.status, below)


def _diff_state(a, b):
    for f in ("cfg", "ctx", "ctxorder", "status", "output", "error", "actors", "system", "kids"):
        if a[f] != b[f]:
            return f
    return None


FIELD = {"cfg": "configuration", "ctx": "context", "ctxorder": "context-key-order", "status": "status", "output": "output",
         "error": "error-flag", "actors": "actor-ids", "system": "systemIds", "kids": "child-state"}


def _logic_extras(case, rec):
    """tr.* markers also mutate a nested context value in place (isolation probe)."""
    extra = {}
    for t in case.trans:
        def _a(interp, ctx, event, action_def, _n=t.marker):
            rec.log.append(("act", _n, event, config_of(interp), 0))
            ctx.setdefault("log", []).append(_n)
            if len(ctx["log"]) > 6:
                del ctx["log"][0]
            # a nested dict filled in firing order (not alphabetical): a FIFO kept in a dict
            seen = ctx.setdefault("seen", {})
            seen.pop(_n, None)
            seen[_n] = len(seen)
        extra[t.marker] = _a
    # entry markers are order-sensitive too: the order in which states are (re-)entered - e.g. the
    # leaves a deep history restores - ends up in the context
    for n in gen.action_names(case.plan):
        if n.startswith("en.") and n.endswith(".a") and n not in extra:
            def _e(interp, ctx, event, action_def, _n=n):
                rec.log.append(("act", _n, event, config_of(interp), 0))
                order = ctx.setdefault("entered", [])
                order.append(_n[3:-2])
                if len(order) > 8:
                    del order[0]
            extra[n] = _e
    return extra


def bisim_case(res: Result, spec, idx):
    pname = PROFILE_CYCLE[idx % len(PROFILE_CYCLE)]
    case = gen.gen_case(rng_for(spec["seed"], ID, spec["chunk"], idx, "case"),
                        gen.profile(pname, maxit=5000))
    nev = NEV[spec["tier"]]
    grng = rng_for(spec["seed"], ID, spec["chunk"], idx, "gt")
    gtables = [drive.rand_gtable(grng, case) for _ in range(nev + 1)]
    crng = rng_for(spec["seed"], ID, spec["chunk"], idx, "cycle")
    for engine in ("sync", "async"):
        if spec.get("only_engine") and spec["only_engine"] != engine:
            continue
        erng = rng_for(spec["seed"], ID, spec["chunk"], idx, "events")
        states, snaps, snapdicts = [], [], []
        holder = {}

        def on_step(run, st):
            if isinstance(st.extra, Exception):
                return True
            it = run["interp"]
            states.append(_state_of(it))
            snaps.append(it.get_snapshot())
            d = it.get_persisted_snapshot()
            snapdicts.append((d, copy.deepcopy(d)))
            holder["run"] = run
            return False

        rec_holder = {}

        def setup(run):
            rec_holder["rec"] = run["rec"]

        # extras need the recorder: build via machine_kw after Rec exists -> use a two-step
        class _KW(dict):
            pass
        f = drive.run_sync if engine == "sync" else drive.run_async
        run = _run_with_extras(f, case, nev, erng, on_step, gtables)
        events = run["events"]
        if len(states) < 2:
            res.count("runs.refused-or-raised")
            continue
        machine, gt = run["machine"], run["gtable"]
        res.count("runs." + engine)
        # (2)/(3) JSON validity and isolation of earlier snapshots
        for i, (d, dcopy) in enumerate(snapdicts):
            res.count("isolation.checked")
            if d != dcopy:
                res.violation("C12:snapshot-mutated-by-later-execution",
                              "persisted snapshot taken after step %d changed while the "
                              "interpreter ran on" % i,
                              {"engine": engine, "events": events, "plan": case.plan},
                              case={"idx": idx, "engine": engine})
                break
        for i, s in enumerate(snaps):
            try:
                js = json.loads(s)
                if set(js["configuration"]) != set(states[i]["cfg"]):
                    raise ValueError("configuration mismatch")
            except Exception as e:  # noqa: BLE001
                res.violation("C12:snapshot-not-valid-json", "get_snapshot() after step %d: %r" % (i, e),
                              {"engine": engine, "events": events, "plan": case.plan},
                              case={"idx": idx, "engine": engine})
                break
        # (1) bisimulation from every cut point
        n = len(events)
        cut_j = crng.randint(1, 3)

        def check_twin_sync(k, double):
            twin = SyncInterpreter.from_snapshot(snaps[k], machine)
            r0 = json.loads(twin.get_snapshot())
            if r0 != json.loads(snaps[k]):
                return "re-snapshot", k
            for i in range(k, n):
                if double and i == k + cut_j:
                    twin2 = SyncInterpreter.from_snapshot(twin.get_snapshot(), machine)
                    twin.stop()
                    twin = twin2
                gt.clear()
                gt.update(gtables[i + 1])
                twin.send(drive._mk_event(events[i]))
                d = _diff_state(states[i + 1], _state_of(twin))
                if d is not None:
                    twin.stop()
                    return d, i + 1
            twin.stop()
            return None

        async def check_twin_async(k, double):
            twin = Interpreter.from_snapshot(snaps[k], machine)
            r0 = json.loads(twin.get_snapshot())
            if r0 != json.loads(snaps[k]):
                return "re-snapshot", k
            await twin.start()
            for i in range(k, n):
                if double and i == k + cut_j:
                    twin2 = Interpreter.from_snapshot(twin.get_snapshot(), machine)
                    await twin.stop()
                    twin = twin2
                    await twin.start()
                gt.clear()
                gt.update(gtables[i + 1])
                await twin.send(drive._mk_event(events[i]))
                await drain(twin)
                d = _diff_state(states[i + 1], _state_of(twin))
                if d is not None:
                    await twin.stop()
                    return d, i + 1
            await twin.stop()
            return None

        def report(k, double, out):
            res.evaluations += 1
            res.count("cuts." + engine + (".double" if double else ""))
            later = states[k + 1:]
            if sum(1 for a, b in zip(states[k:], later) if a["cfg"] != b["cfg"]) >= 2:
                res.hashes.add(h([case.plan, events, k, engine]))
            if out is not None:
                f, step = out
                name = FIELD.get(f, f)
                res.violation("C12:restored-diverges:%s" % name,
                              "%s: interpreter restored after %d events differs from the "
                              "uninterrupted run in %s at step %d%s" % (
                                  engine, k, name, step, " (double restore)" if double else ""),
                              {"engine": engine, "events": events, "k": k, "profile": pname,
                               "plan": case.plan}, case={"idx": idx, "engine": engine})
                return True
            return False

        stop = False
        if engine == "sync":
            for k in range(len(snaps) - 1):
                if states[k]["status"] != "running" and k > 0 and states[k - 1]["status"] != "running":
                    continue
                for double in (False, True) if k % 3 == 0 else (False,):
                    try:
                        out = check_twin_sync(k, double)
                    except Exception as e:  # noqa: BLE001
                        out = ("exception:" + type(e).__name__, k)
                    if report(k, double, out):
                        stop = True
                        break
                if stop:
                    break
        else:
            async def body():
                for k in range(len(snaps) - 1):
                    for double in (False, True) if k % 3 == 0 else (False,):
                        try:
                            out = await check_twin_async(k, double)
                        except Exception as e:  # noqa: BLE001
                            out = ("exception:" + type(e).__name__, k)
                        if report(k, double, out):
                            return
            run_virtual(body)
        if idx % 120 == 0 and engine == "sync":
            res.sample({"profile": pname, "events": events[:6], "cuts": len(snaps) - 1,
                        "snapshot_keys": sorted(json.loads(snaps[0]).keys()),
                        "machine": plan_summary(case)})
        if idx % 10 == 0 and engine == "sync" and len(snaps) > 2:
            corruption(res, snaps[len(snaps) // 2], machine, case, idx)


def _run_with_extras(f, case, nev, erng, on_step, gtables):
    """Runs a driver with tr.* markers that mutate nested context (needs the run's Rec)."""
    orig_make = observe.make_machine

    def patched(case_, rec, gtable, **kw):
        kw["extra_actions"] = _logic_extras(case_, rec)
        return orig_make(case_, rec, gtable, **kw)
    drive.make_machine = patched
    try:
        return f(case, nev, erng, on_step, gtables=gtables)
    finally:
        drive.make_machine = orig_make


def corruption(res: Result, snap: str, machine, case, idx):
    def attempt(text, cls_name, must_reject):
        res.count("corruption." + cls_name)
        try:
            SyncInterpreter.from_snapshot(text, machine)
        except LIBERR:
            res.count("corruption.rejected-with-library-error")
            return
        except Exception as e:  # noqa: BLE001
            res.violation("C12:corrupt-snapshot-raw-%s/%s" % (type(e).__name__, cls_name),
                          "from_snapshot leaked %s: %s" % (type(e).__name__, str(e)[:120]),
                          {"class": cls_name, "text": text[:300], "plan": case.plan},
                          case={"idx": idx})
            return
        if must_reject:
            res.violation("C12:corrupt-snapshot-accepted/%s" % cls_name,
                          "from_snapshot accepted a corrupt snapshot (%s)" % cls_name,
                          {"class": cls_name, "text": text[:300], "plan": case.plan},
                          case={"idx": idx})
        else:
            res.count("corruption.accepted(not-judged)")

    for off in range(len(snap)):
        t = snap[:off]
        try:
            json.loads(t)
            continue  # still valid JSON (cannot happen for an object, but be safe)
        except Exception:  # noqa: BLE001
            pass
        attempt(t, "truncation", True)
    for t in ("[]", "1", "null", '"x"', "true", "[{}]"):
        attempt(t, "non-object", True)
    js = json.loads(snap)
    for field in ("configuration", "state_ids"):
        d = copy.deepcopy(js)
        if field == "state_ids":
            d.pop("configuration", None)
        d[field] = list(d[field])[:-1] + ["m.__nope__"]
        attempt(json.dumps(d), "unknown-state-id", True)
    wrong = [None, 0, "x", [], {}, True, [1], {"a": 1}]
    for field in sorted(js.keys()):
        for w in wrong:
            d = copy.deepcopy(js)
            d[field] = w
            attempt(json.dumps(d), "field-type:" + field, False)
    for field in ("status", "context"):
        d = copy.deepcopy(js)
        d.pop(field, None)
        attempt(json.dumps(d), "field-missing:" + field, False)


# ---------------------------------------------------------------------------
# actor template
# ---------------------------------------------------------------------------
def actor_case(res: Result, spec, idx):
    rng = rng_for(spec["seed"], ID, spec["chunk"], idx, "actors")
    def bump(i, ctx, e, a):
        ctx["c"] += 1
    gkid_cfg = {"id": "gkid", "initial": "idle", "context": {"c": 0}, "states": {
        "idle": {"on": {"PING": {"target": "hit", "actions": ["bump"]}}},
        "hit": {"on": {"PING": {"target": "idle", "actions": ["bump"]}}}}}
    gkid = create_machine(gkid_cfg, logic=MachineLogic(actions={"bump": bump}))
    # a child spawns a grandchild under a GENERATED id (spawn_<service>) and relays to it by service key
    relay = {"SPAWNG": {"actions": [{"type": "spawn_gkid"}]},
             "PINGG": {"actions": [{"type": "xstate.sendTo", "params": {"to": "gkid", "event": "PING"}}]}}
    # (FIN ends the child: a finished child that nobody stopped is still the parent's child and still
    #  in the system registry - in the uninterrupted run and in a restored one alike)
    relay["FIN"] = "z"
    kid_cfg = {"id": "kid", "initial": "a", "context": {"c": 0}, "on": relay, "states": {
        "a": {"on": {"PING": {"target": "b", "actions": ["bump"]}}},
        "b": {"on": {"PING": {"target": "a", "actions": ["bump"]}}},
        "z": {"type": "final"}}}
    kid = create_machine(kid_cfg, logic=MachineLogic(actions={"bump": bump}, services={"gkid": gkid}))

    def sc(src, **p):
        return {"type": "xstate.spawnChild", "params": dict(src=src, **p)}

    def st_(to, ev):
        return {"type": "xstate.sendTo", "params": {"to": to, "event": ev}}
    parent_cfg = {"id": "p", "initial": "idle", "context": {"n": 0}, "states": {
        "idle": {"on": {
            "SPAWN1": {"actions": [sc("kid", id="k1", systemId="sys1")]},
            "SPAWN2": {"actions": [sc("kid", id="k2")]},
            "PING1": {"actions": [st_("k1", "PING")]},
            "PINGSYS": {"actions": [st_("sys1", "PING")]},
            "PING2": {"actions": [st_("k2", "PING")]},
            "STOP1": {"actions": [{"type": "xstate.stopChild", "params": {"id": "k1"}}]},
            "K1SPAWNG": {"actions": [st_("k1", "SPAWNG")]},
            "K1PINGG": {"actions": [st_("k1", "PINGG")]},
            "FIN1": {"actions": [st_("k1", "FIN")]},
            # a child spawned in BLOCKING mode: started inline, watched by no thread
            "SPAWN3": {"actions": [{"type": "spawn_blocking_kid", "params": {"id": "k3", "systemId": "sys3"}}]},
            "PING3": {"actions": [st_("sys3", "PING")]},
            "FIN3": {"actions": [st_("k3", "FIN")]},
            "GO": "busy"}},
        "busy": {"on": {"BACK": "idle", "PING2": {"actions": [st_("k2", "PING")]}}}}}
    machine = create_machine(parent_cfg, logic=MachineLogic(services={"kid": kid}))
    script, have, where = [], set(), "idle"
    for _ in range(10):
        # ids are never reused while their actor is alive (reuse belongs to C15)
        opts = ["GO", "BACK", "PING2", "PINGSYS", "PING1"]
        if "k1" not in have:
            opts += ["SPAWN1", "SPAWN1"]
        else:
            opts += ["STOP1", "K1PINGG", "K1PINGG", "FIN1"]
            if "g" not in have:
                opts += ["K1SPAWNG", "K1SPAWNG"]
        if "k2" not in have:
            opts += ["SPAWN2"]
        if "k3" not in have:
            opts += ["SPAWN3"]
        else:
            opts += ["PING3", "FIN3"]
        e = rng.choice(opts)
        script.append(e)
        if where == "idle":
            if e == "SPAWN1":
                have.add("k1")
            elif e == "SPAWN2":
                have.add("k2")
            elif e == "SPAWN3":
                have.add("k3")
            elif e == "STOP1":
                have.discard("k1")
                have.discard("g")
            elif e == "K1SPAWNG" and "k1" in have:
                have.add("g")
            elif e == "GO":
                where = "busy"
        elif e == "BACK":
            where = "idle"

    unsettled = []

    def settle_sync(it):
        """Waits until the interpreter tree is at rest.  A child is at rest when it is idle (not
        processing, empty queue) and either running in a non-final configuration, or finished with no
        actor thread of its name left: a finished child that HAS one is about to be stopped and
        dropped by it (the thread polls), one that has none stays as it is."""
        t0 = time.time()
        while time.time() - t0 < 6.0:
            pairs = []

            def walk(x):
                for aid, a in list((getattr(x, "_actors", {}) or {}).items()):
                    pairs.append((aid, a))
                    walk(a)
            walk(it)
            ids = {aid for aid, _ in pairs}
            names = {t.name[6:] for t in observe.engine_threads() if t.name.startswith("actor-")}

            def at_rest(aid, a):
                if a.status == "uninitialized" or getattr(a, "_is_processing", False) \
                        or len(getattr(a, "_event_queue", ())):
                    return False
                finished = a.status != "running" or any(
                    n.is_final and n.parent is a.machine for n in a._active_state_nodes)
                if finished:
                    return aid not in names
                # (start() sets status before it raises the processing flag and enters the initial
                #  states: a running child without a configuration is still starting)
                return len(getattr(a, "_active_state_nodes", ())) > 0
            if not (names - ids) and all(at_rest(aid, a) for aid, a in pairs):
                return
            time.sleep(0.002)
        unsettled.append(1)      # a loaded machine: this script is not judged

    for engine in ("sync", "async"):
        states, snaps = [], []
        if engine == "sync":
            it = SyncInterpreter(machine).start()
            states.append(_state_of(it))
            snaps.append(it.get_snapshot())
            for e in script:
                it.send(e)
                settle_sync(it)
                states.append(_state_of(it))
                snaps.append(it.get_snapshot())
            it.stop()
            for k in range(len(script)):
                twin = SyncInterpreter.from_snapshot(snaps[k], machine)
                bad = None
                for i in range(k, len(script)):
                    twin.send(script[i])
                    settle_sync(twin)
                    d = _diff_state(states[i + 1], _state_of(twin))
                    if d is not None:
                        bad = (d, i + 1)
                        break
                twin.stop()
                if unsettled:
                    res.count("actor-template.skipped-unsettled")
                    break
                _actor_report(res, engine, k, bad, script, idx)
                if bad:
                    break
        else:
            async def body():
                it = Interpreter(machine)
                await it.start()
                states.append(_state_of(it))
                snaps.append(it.get_snapshot())
                for e in script:
                    await it.send(e)
                    await drain(it)
                    for a in list(it._actors.values()):
                        await drain(a)
                    states.append(_state_of(it))
                    snaps.append(it.get_snapshot())
                await it.stop()
                for k in range(len(script)):
                    twin = Interpreter.from_snapshot(snaps[k], machine)
                    await twin.start()
                    bad = None
                    for i in range(k, len(script)):
                        await twin.send(script[i])
                        await drain(twin)
                        for a in list(twin._actors.values()):
                            await drain(a)
                        d = _diff_state(states[i + 1], _state_of(twin))
                        if d is not None:
                            bad = (d, i + 1)
                            break
                    await twin.stop()
                    _actor_report(res, engine, k, bad, script, idx)
                    if bad:
                        return
            run_virtual(body)


def _actor_report(res, engine, k, bad, script, idx):
    res.evaluations += 1
    res.count("actor-cuts." + engine)
    res.hashes.add(h(["actors", script, k, engine]))
    if bad:
        f, step = bad
        res.violation("C12:restored-diverges:%s/actors" % FIELD.get(f, f),
                      "%s actor template: restore after %d events differs in %s at step %d" % (
                          engine, k, FIELD.get(f, f), step),
                      {"engine": engine, "script": script, "k": k}, case={"idx": idx, "actors": True})


def run_chunk(spec):
    observe.quiet_logs()
    res = Result()
    only = spec.get("only_case")
    if only:
        if only.get("actors"):
            actor_case(res, spec, only["idx"])
        else:
            bisim_case(res, dict(spec, only_engine=only.get("engine")), only["idx"])
        return res.to_json()
    base = spec["chunk"] * 100000
    wd = Watchdog(res, 400.0)
    for j in range(spec["n"]):
        wd.arm("idx=%d" % (base + j))
        bisim_case(res, spec, base + j)
        if j % 6 == 0:
            actor_case(res, spec, base + j)
    wd.disarm()
    return res.to_json()


def quota(counters, tier):
    out = []
    for k in ("cuts.sync", "cuts.async", "cuts.sync.double", "cuts.async.double",
              "isolation.checked", "corruption.truncation", "corruption.non-object",
              "corruption.unknown-state-id", "corruption.field-type:context",
              "actor-cuts.sync", "actor-cuts.async"):
        if counters.get(k, 0) == 0:
            out.append("monitor-never-reached:" + k)
    return out
