"""C08 — delayed (after) transitions fire when due and never after the state was left.

Async engine: virtual-time loop, exact stamps.  Sync engine: real time with
small delays; decisions are on activations and ordering, never on lateness.
Each firing is tied to the arming that produced it by the identity of the
AfterEvent object (armed in _after_timer, received by the fired transition's
action).
"""
from __future__ import annotations

import asyncio
import logging
import threading
import time

from .. import observe
from ..observe import (Event, Interpreter, MachineLogic, SyncInterpreter, config_of,
                       create_machine, run_virtual)
from .common import Result, Watchdog, h, rng_for

ID = "C08"
LEVEL = "exploration"
TECHNIQUE = ("runtime monitoring on a virtual-time asyncio loop (and real time for the sync "
             "engine): arming epochs recorded by wrappers on _after_timer/_schedule_state_tasks, "
             "firings tied to their arming by AfterEvent identity, laws L1-L6 checked over the "
             "stamped log; scripted placement of events, slow actions and stop() around deadlines")
LEVEL_TEXT = ("every scripted schedule (grid around each deadline incl. exact ties and expiry "
              "queued behind leave/re-enter pairs, plus random schedules) is checked against the "
              "timing laws; held on the schedules explored")
LEVEL_NOTE = ("trusted: virtual loop (time advances only when nothing is runnable), harness "
              "wrappers (counted), script executor; sync runs never judge lateness")
RULE = ("template machines (1-2 timers per state, numeric/string/named/callable delays, guards, "
        "re-entry via reenter / ancestor / sibling round trip) x scripts placing SEND/SLOW/LEAVE/"
        "BACK/STOP at deadline-1/deadline/deadline+1 in both orders, spanning slow actions, and "
        "random scripts; one evaluation = one executed schedule; non-trivial = a schedule with an "
        "event or slow action within 1 ms of, or spanning, a deadline, or a leave/re-enter; "
        "distinct = hash(template, script, engine)")
ASSUMPTIONS = ["lateness is never judged on the sync engine; a missing firing there is a "
               "violation only once the state has stayed active 20x the delay past the deadline",
               "guards and named-delay inputs are flipped only by the script (external table)"]
NCHUNKS = 16
EPS = 1e-6


def chunks(tier, seed):
    return [{"name": f"C08-{tier}-{i}", "prop": ID, "tier": tier, "seed": seed, "chunk": i,
             "timeout": 900 if tier == "quick" else 3000} for i in range(NCHUNKS)]


# ---------------------------------------------------------------------------
# template
# ---------------------------------------------------------------------------
def template(delays, kind, guard1, nested):
    """delays: list of ms (1-2).  kind: how delay keys are written."""
    after = {}
    dlogic = {}
    for k, d in enumerate(delays):
        t = {"target": "#m.t%d" % k, "actions": ["fired%d" % k]}
        if k == 0 and guard1:
            t["guard"] = "g"
        if kind == "int":
            key = d
        elif kind == "str":
            key = str(d)
        elif kind == "named":
            key = "DLY%d" % k
            dlogic[key] = d
        else:  # callable named delay reading context at entry
            key = "DLY%d" % k
            dlogic[key] = (lambda ctx, ev, _k=k: ctx["d%d" % _k])
        if key in after:      # two definitions with the same delay share one key
            prev = after[key]
            after[key] = (prev if isinstance(prev, list) else [prev]) + [t]
        else:
            after[key] = t
    w = {"entry": ["enter_w"], "exit": ["exit_w"], "after": after,
         "on": {"SLOW": {"actions": ["slow"]}, "LEAVE": "o", "SELF": {"target": "w", "reenter": True},
                "NOP": {"actions": ["nop"]}}}
    o = {"on": {"BACK": "w", "SLOW": {"actions": ["slow"]}}}
    states = {"w": w, "o": o}
    ctx = {"d%d" % k: d for k, d in enumerate(delays)}
    if nested == "compound":
        # the timers' owner is itself a compound state (never a leaf of the configuration)
        w["initial"] = "in"
        w["states"] = {"in": {"on": {"INNER": "in2"}}, "in2": {}}
    if nested is True:
        top = {"p": {"initial": "w", "states": states, "on": {"REP": {"target": "p", "reenter": True}}}}
        init = "p"
    else:
        top = states
        init = "w"
    for k in range(len(delays)):
        top["t%d" % k] = {"on": {"BACK": "#m.p.w" if nested is True else "w"}}
    cfg = {"id": "m", "initial": init, "context": ctx, "states": top}
    return cfg, dlogic


class Log:
    def __init__(self, clock):
        self.clock = clock
        self.rows = []

    def add(self, *row):
        self.rows.append((self.clock(),) + row)


class EvPlugin(observe.PluginBase):
    def __init__(self, log):
        self.log = log

    def on_event_received(self, interp, event):
        self.log.add("ev", event)


def make(cfg, dlogic, log: Log, gt, sleeper):
    def mk(name):
        return lambda i, c, e, a, _n=name: log.add("act", _n, e)
    acts = {n: mk(n) for n in ("enter_w", "exit_w", "nop", "fired0", "fired1")}
    acts["slow"] = sleeper

    def g(ctx, ev):
        log.add("guard", gt["g"])
        return gt["g"]
    return create_machine(cfg, logic=MachineLogic(actions=acts, guards={"g": g}, delays=dlogic))


# ---------------------------------------------------------------------------
# law checker over the stamped log
# ---------------------------------------------------------------------------
def check(res: Result, log: Log, delays, tmpl, script, engine, t_end, stopped_at, idle, guard1,
          wit):
    rows = log.rows
    arms = {}      # id(event) -> (t_arm, owner, delay_sec, activation index)
    act_idx = -1
    acts = []      # activations of w: [t_enter, t_exit or None]
    fired = {}     # (activation, k) -> count
    key_tail = "%s/%s" % (tmpl, engine)
    bad = []

    def v(key, what):
        bad.append((key, what))
    guard_at = {}
    ev_state = {}
    cur_d = list(delays)
    d_at_entry = {}
    callable_kind = "callable" in tmpl
    for r in rows:
        t, kind = r[0], r[1]
        if kind == "act" and r[2] == "enter_w":
            acts.append([t, None])
            act_idx = len(acts) - 1
            d_at_entry[act_idx] = sorted(x / 1e3 for x in cur_d)
        elif kind == "ctx":
            for kk in range(len(cur_d)):
                if "d%d" % kk in r[2]:
                    cur_d[kk] = r[2]["d%d" % kk]
        elif kind == "act" and r[2] == "exit_w":
            if acts and acts[-1][1] is None:
                acts[-1][1] = t
        elif kind == "ev":
            # activity of w at the moment the event is taken from the queue
            ev_state[id(r[2])] = (len(acts) - 1, bool(acts) and acts[-1][1] is None)
        elif kind == "arm":
            owner, dsec, ev = r[2], r[3], r[4]
            if owner.endswith(".w"):
                arms[id(ev)] = (t, owner, dsec, act_idx, ev)
                res.count("arms")
        elif kind == "act" and r[2].startswith("fired"):
            k = int(r[2][5:])
            ev = r[3]
            res.count("firings")
            a = arms.get(id(ev))
            if stopped_at is not None and t > stopped_at + EPS:
                v("C08:fired-after-stop/" + key_tail, "after transition fired at %.1f ms, stop() returned "
                  "at %.1f ms" % (t * 1e3, stopped_at * 1e3))
            if a is None:
                v("C08:firing-without-arming/" + key_tail,
                  "transition fired by an AfterEvent that no _after_timer call armed")
                continue
            t_arm, owner, dsec, ai, _ = a
            cur, was_active = ev_state.get(id(ev), (len(acts) - 1, bool(acts) and acts[-1][1] is None))
            if not was_active:
                v("C08:fired-while-state-inactive/" + key_tail,
                  "after transition of w fired at %.1f ms while w was not active" % (t * 1e3))
            elif ai != cur:
                v("C08:stale-timer-fired-in-later-activation/" + key_tail,
                  "timer armed at %.1f ms (activation %d) fired at %.1f ms in activation %d, "
                  "%.1f ms after its entry" % (t_arm * 1e3, ai, t * 1e3, cur, (t - acts[cur][0]) * 1e3))
            if t - t_arm < dsec - (EPS if engine == "async" else 0.002):
                v("C08:fired-early/" + key_tail, "fired %.2f ms after arming, delay %.2f ms" % (
                    (t - t_arm) * 1e3, dsec * 1e3))
            fired[(cur, k)] = fired.get((cur, k), 0) + 1
            if fired[(cur, k)] > 1:
                v("C08:fired-twice-in-one-activation/" + key_tail, "timer %d fired twice" % k)
            if k == 0 and guard1:
                # last guard evaluation before this firing must have been True
                last = [x for x in rows if x[1] == "guard" and x[0] <= t]
                if last and last[-1][2] is not True:
                    v("C08:fired-with-false-guard/" + key_tail, "guard was false at expiry")
            if idle and engine == "async" and abs((t - t_arm) - dsec) > EPS:
                v("C08:idle-timer-late/" + key_tail, "nothing else was pending, yet the timer fired "
                  "%.3f ms after arming instead of %.3f" % ((t - t_arm) * 1e3, dsec * 1e3))
        elif kind == "census":
            n_live, active = r[2], r[3]
            res.count("census.samples")
            if n_live > len(delays):
                v("C08:more-live-timers-than-definitions/" + key_tail,
                  "%d live timers for w, %d after definitions" % (n_live, len(delays)))
            if not active and n_live:
                v("C08:live-timer-for-inactive-state/" + key_tail,
                  "%d live timers although w is not active" % n_live)
    # arming per activation: exactly one timer per after definition per entry
    per_act = {}
    for (t_arm, owner, dsec, ai, ev) in arms.values():
        per_act[ai] = per_act.get(ai, 0) + 1
    for ai, n in per_act.items():
        if n != len(delays):
            v("C08:wrong-number-of-timers-armed-on-entry/" + key_tail,
              "activation %d armed %d timers for %d definitions" % (ai, n, len(delays)))
    if callable_kind:
        # L5: computed delays are resolved at entry, from the context as it is THEN
        for ai, want in d_at_entry.items():
            got = sorted(round(a[2], 9) for a in arms.values() if a[3] == ai)
            if len(got) == len(want) and any(abs(x - y) > 1e-9 for x, y in zip(got, want)):
                res.count("computed-delay.checked")
                v("C08:computed-delay-not-resolved-at-entry/" + key_tail,
                  "activation %d armed delays %s ms, context at entry says %s ms" % (
                      ai, [round(x * 1e3, 3) for x in got], [round(x * 1e3, 3) for x in want]))
            else:
                res.count("computed-delay.checked")
    for ai in range(len(acts)):
        if ai not in per_act and delays:
            v("C08:no-timer-armed-on-entry/" + key_tail, "activation %d armed no timer" % ai)
    # bounded progress: an activation that outlived its deadline by a wide margin must have fired
    busy = sum(op[2].get("ms", 0) for op in script if op[1] == "send" and op[2].get("type") == "SLOW") / 1e3
    for ai, (t_in, t_out) in enumerate(acts):
        end = t_out if t_out is not None else (stopped_at if stopped_at is not None else t_end)
        for k, d in enumerate(delays[:1]):
            # resolved delay for this activation (named/callable may differ): use armed value
            armed = [a for a in arms.values() if a[3] == ai]
            dsecs = sorted(a[2] for a in armed)
            if len(dsecs) != len(delays):
                continue
            if guard1:
                # the first definition is guarded and may legitimately never fire
                if len(dsecs) < 2:
                    break
                first = dsecs[-1]
            else:
                first = dsecs[0]
            margin = busy + (0.0005 if engine == "async" else 20 * first + 0.3)
            if end - t_in > first + margin and not any(fired.get((ai, kk)) for kk in range(len(delays))):
                v("C08:timer-never-fired/" + key_tail,
                  "w stayed active %.1f ms (delay %.1f ms, busy %.1f ms) and no after transition "
                  "fired" % ((end - t_in) * 1e3, first * 1e3, busy * 1e3))
                break
    res.evaluations += 1
    res.count("schedules." + engine)
    if not idle:
        res.hashes.add(h([tmpl, script, engine]))
    for key, what in bad[:1]:
        res.violation(key, what, wit)
    return bad


# ---------------------------------------------------------------------------
# executors
# ---------------------------------------------------------------------------
def run_async(res, delays, kind, guard1, nested, script, tmpl, idle, wit, order_flip=False):
    cfg, dlogic = template(delays, kind, guard1, nested)
    gt = {"g": True}
    out = {}

    async def body():
        loop = asyncio.get_event_loop()
        log = Log(loop.time)
        observe.SINK["log"] = _Sink(log)

        async def slow(i, c, e, a):
            log.add("act", "slow-begin", e)
            await asyncio.sleep(e.payload.get("ms", 1) / 1e3)
            log.add("act", "slow-end", e)
        machine = make(cfg, dlogic, log, gt, slow)
        it = Interpreter(machine)
        it.use(EvPlugin(log))
        stopped = {"at": None}

        async def op_task(t_ms, op, arg):
            await asyncio.sleep(t_ms / 1e3)
            if op == "send":
                await it.send(Event(type=arg["type"], payload=dict(arg)))
            elif op == "stop":
                await it.stop()
                if stopped["at"] is None:
                    stopped["at"] = loop.time()
            elif op == "guard":
                gt["g"] = arg
            elif op == "ctx":
                it.context.update(arg)
                log.add("ctx", arg)
            log.add("census", observe.live_timers(it).get("m.p.w" if nested is True else "m.w", 0),
                    any(s.endswith(".w") for s in config_of(it)))
        pre = [asyncio.ensure_future(op_task(*o)) for o in script] if order_flip else []
        await it.start()
        tasks = pre or [asyncio.ensure_future(op_task(*o)) for o in script]
        horizon = (max([o[0] for o in script] + [0]) + 6 * max(delays) + 200) / 1e3
        await asyncio.sleep(horizon)
        await asyncio.gather(*tasks, return_exceptions=True)
        log.add("census", observe.live_timers(it).get("m.p.w" if nested is True else "m.w", 0),
                it.status == "running" and any(s.endswith(".w") for s in config_of(it)))
        t_end = loop.time()
        if it.status != "stopped":
            await it.stop()
        out.update(log=log, t_end=t_end, stopped=stopped["at"])
    try:
        run_virtual(body)
    finally:
        observe.SINK["log"] = None
    return check(res, out["log"], delays, tmpl, script, "async", out["t_end"], out["stopped"], idle,
                 guard1, wit)


class _Sink:
    """Adapter: harness wrappers append tuples; we stamp them with the scenario clock."""

    def __init__(self, log):
        self.log = log

    def append(self, rec):
        if rec[0] == "arm":
            self.log.add("arm", rec[1], rec[2], rec[3])
        elif rec[0] in ("sched", "cancel"):
            self.log.add(rec[0], rec[1])


def run_sync(res, delays, kind, guard1, nested, script, tmpl, idle, wit):
    """Real time; the script is executed by the caller thread with sleeps."""
    cfg, dlogic = template(delays, kind, guard1, nested)
    gt = {"g": True}
    t0 = time.monotonic()
    log = Log(lambda: time.monotonic() - t0)
    lock = threading.Lock()
    orig_add = log.add

    def locked_add(*row):
        with lock:
            orig_add(*row)
    log.add = locked_add
    observe.SINK["log"] = _Sink(log)

    def slow(i, c, e, a):
        log.add("act", "slow-begin", e)
        time.sleep(e.payload.get("ms", 1) / 1e3)
        log.add("act", "slow-end", e)
    machine = make(cfg, dlogic, log, gt, slow)
    it = SyncInterpreter(machine)
    it.use(EvPlugin(log))
    stopped = None
    try:
        it.start()
        i = 0
        ops = sorted(script, key=lambda o: o[0])
        while i < len(ops):
            t_ms = ops[i][0]
            wait = t_ms / 1e3 - (time.monotonic() - t0)
            if wait > 0:
                time.sleep(wait)
            batch = []
            while i < len(ops) and ops[i][0] == t_ms:
                batch.append(ops[i])
                i += 1
            sends = [Event(type=o[2]["type"], payload=dict(o[2])) for o in batch if o[1] == "send"]
            for o in batch:
                if o[1] == "guard":
                    gt["g"] = o[2]
                elif o[1] == "ctx":
                    it.context.update(o[2])
                    log.add("ctx", o[2])
            if len(sends) > 1:
                it.send_events(sends)      # queued together: later ones wait behind slow actions
            elif sends:
                it.send(sends[0])
            for o in batch:
                if o[1] == "stop":
                    it.stop()
                    if stopped is None:
                        stopped = time.monotonic() - t0
            wkey = "m.p.w" if nested is True else "m.w"
            log.add("census", observe.live_timers(it).get(wkey, 0),
                    it.status == "running" and any(x.endswith(".w") for x in config_of(it)))
        horizon = (max([o[0] for o in script] + [0]) + 25 * max(delays) + 350) / 1e3
        while time.monotonic() - t0 < horizon:
            time.sleep(0.01)
        t_end = time.monotonic() - t0
    finally:
        if it.status != "stopped":
            it.stop()
        observe.SINK["log"] = None
    return check(res, log, delays, tmpl, script, "sync", t_end, stopped, idle, guard1, wit)


# ---------------------------------------------------------------------------
# scripts
# ---------------------------------------------------------------------------
def grid_scripts(D):
    """Placements around deadline D (ms) of the first activation."""
    S = []
    for dt in (-1, 0, 1):
        t = D + dt
        S.append(("leave@%+d" % dt, [(t, "send", {"type": "LEAVE"})]))
        S.append(("leave-back@%+d" % dt, [(t, "send", {"type": "LEAVE"}), (t, "send", {"type": "BACK"})]))
        S.append(("self@%+d" % dt, [(t, "send", {"type": "SELF"})]))
        S.append(("nop@%+d" % dt, [(t, "send", {"type": "NOP"})]))
        S.append(("stop@%+d" % dt, [(t, "stop", None)]))
    # slow action spanning the deadline with LEAVE / LEAVE+BACK queued behind it
    for s0, dur in ((D - 3, 6), (D - 1, 2), (1, D + 5)):
        S.append(("slow-span", [(s0, "send", {"type": "SLOW", "ms": dur})]))
        S.append(("slow-span+leave", [(s0, "send", {"type": "SLOW", "ms": dur}),
                                      (s0, "send", {"type": "LEAVE"})]))
        S.append(("slow-span+leave+back", [(s0, "send", {"type": "SLOW", "ms": dur}),
                                           (s0, "send", {"type": "LEAVE"}),
                                           (s0, "send", {"type": "BACK"})]))
        S.append(("slow-span+self", [(s0, "send", {"type": "SLOW", "ms": dur}),
                                     (s0, "send", {"type": "SELF"})]))
        S.append(("slow-span+stop", [(s0, "send", {"type": "SLOW", "ms": dur}), (s0 + 1, "stop", None)]))
    S.append(("idle", []))
    S.append(("leave-early-back-late", [(2, "send", {"type": "LEAVE"}), (D + 4, "send", {"type": "BACK"})]))
    S.append(("guard-false-at-expiry", [(1, "guard", False), (D + 3, "guard", True)]))
    S.append(("ctx-changed-after-entry", [(1, "ctx", {"d0": 3 * D + 7, "d1": 3 * D + 9})]))
    S.append(("ctx-changed-then-reenter", [(1, "ctx", {"d0": 3 * D + 7, "d1": 3 * D + 9}),
                                           (2, "send", {"type": "LEAVE"}), (3, "send", {"type": "BACK"})]))
    S.append(("ctx-changed-then-self", [(1, "ctx", {"d0": D // 2, "d1": D // 2 + 1}),
                                        (2, "send", {"type": "SELF"})]))
    return S


def random_script(rng, D):
    n = rng.randint(1, 6)
    ops = []
    for _ in range(n):
        t = rng.choice([rng.randint(0, 3 * D), D - 1, D, D + 1, 2 * D, 2 * D + 1])
        r = rng.random()
        if r < 0.25:
            ops.append((t, "send", {"type": "SLOW", "ms": rng.choice([1, 2, D // 2 + 1, D + 3])}))
        elif r < 0.45:
            ops.append((t, "send", {"type": "LEAVE"}))
        elif r < 0.65:
            ops.append((t, "send", {"type": "BACK"}))
        elif r < 0.75:
            ops.append((t, "send", {"type": "SELF"}))
        elif r < 0.82:
            ops.append((t, "send", {"type": "REP"}))
        elif r < 0.9:
            ops.append((t, "send", {"type": "NOP"}))
        elif r < 0.93:
            ops.append((t, "guard", rng.random() < 0.5))
        elif r < 0.97:
            ops.append((t, "ctx", {"d0": rng.choice([3, D, 2 * D + 1]), "d1": rng.choice([5, D + 7])}))
        else:
            ops.append((t, "stop", None))
    ops.sort(key=lambda o: o[0])
    return ops


def sync_expiry_behind_slow_action(res, mode, slow_ms, delay_ms, act_at_ms):
    """Sync engine, real threads: a timer expires while a slow action of the same machine is still
    running on another thread, so the expiry can only be queued behind it; before the action returns
    the harness either stops the interpreter or queues LEAVE.  Neither a stopped interpreter nor a
    state that was left may run the delayed transition."""
    import threading
    import time
    log = []
    gate = threading.Event()

    def slow(i, c, e, a):
        gate.set()
        time.sleep(slow_ms / 1e3)
        log.append(("slow-end", time.monotonic()))
    cfg = {"id": "m", "initial": "w", "states": {
        "w": {"after": {str(delay_ms): {"target": "t", "actions": ["fired"]}},
              "on": {"SLOW": {"actions": ["slow"]}, "LEAVE": "o"}},
        "o": {}, "t": {}}}
    m = create_machine(cfg, logic=MachineLogic(actions={
        "slow": slow, "fired": lambda i, c, e, a: log.append(("fired", time.monotonic(), i.status))}))
    it = SyncInterpreter(m).start()
    th = threading.Thread(target=lambda: it.send("SLOW"), name="xsv-slow-sender", daemon=True)
    th.start()
    gate.wait(2.0)
    time.sleep(act_at_ms / 1e3)          # the timer has expired by now: its event is queued
    t_act = time.monotonic()
    if mode == "stop":
        it.stop()
    else:
        it.send("LEAVE")                 # queued behind the running macrostep, ahead of nothing
    t_ret = time.monotonic()
    th.join(3.0)
    time.sleep(0.03)
    res.evaluations += 1
    res.count("slow-action.scenarios." + mode)
    res.hashes.add(h(["slowexp", mode, slow_ms, delay_ms, act_at_ms]))
    fired = [r for r in log if r[0] == "fired"]
    wit = {"mode": mode, "slow_ms": slow_ms, "delay_ms": delay_ms, "act_at_ms": act_at_ms,
           "config": sorted(config_of(it)), "status": it.status}
    if mode == "stop":
        # (on a loaded machine the slow action may be over, and the queued expiry handled, before this
        #  thread gets to call stop(): only a firing AFTER the call is judged)
        if fired and fired[0][1] <= t_act:
            res.count("slow-action.expiry-handled-before-stop-was-called")
        elif fired:
            res.violation("C08:queued-expiry-processed-after-stop/sync",
                          "the delayed transition ran %.1f ms after stop() was called (status then %s)" % (
                              (fired[0][1] - t_act) * 1e3, fired[0][2]), wit)
        elif "m.t" in config_of(it) and not fired:
            res.violation("C08:queued-expiry-processed-after-stop/sync", "configuration moved to t", wit)
    else:
        # expiry was queued BEFORE LEAVE: it is processed first, while w is still active -> must fire
        if len(fired) != 1 and act_at_ms > delay_ms + 8:
            res.violation("C08:expiry-queued-before-leave-lost/sync",
                          "expiry queued %d ms before LEAVE fired %d times" % (act_at_ms - delay_ms, len(fired)),
                          wit)
    if it.status != "stopped":
        it.stop()


def restarted_timer_while_stale_expiry_pending(res, delay_ms, slow1_ms, slow2_ms):
    """Sync engine, real threads.  The batch [SLOW1, RETRY, WORK] is queued; the timer armed on entry
    expires during SLOW1, so its expiry is queued BEHIND RETRY and WORK.  RETRY re-enters the state
    (restarting the delay), WORK is slow and the restarted timer expires during it - while the first,
    now stale, expiry is still pending.  The stale one must be discarded and the restarted delay must
    still fire: exactly one firing, after the restart."""
    import threading
    import time
    log = []

    def slow(ms):
        def _a(i, c, e, a):
            time.sleep(ms / 1e3)
        return _a
    cfg = {"id": "m", "initial": "waiting", "states": {
        "waiting": {"entry": ["armed"], "after": {str(delay_ms): {"target": "expired", "actions": ["fired"]}},
                    "on": {"SLOW1": {"actions": ["slow1"]}, "WORK": {"actions": ["slow2"]},
                           "RETRY": {"target": "waiting", "reenter": True}}},
        "expired": {}}}
    m = create_machine(cfg, logic=MachineLogic(actions={
        "slow1": slow(slow1_ms), "slow2": slow(slow2_ms),
        "armed": lambda i, c, e, a: log.append(("armed", time.monotonic())),
        "fired": lambda i, c, e, a: log.append(("fired", time.monotonic()))}))
    it = SyncInterpreter(m).start()
    try:
        it.send_events(["SLOW1", "RETRY", "WORK"])
        t_end = time.monotonic()
        # the restarted delay ran out during WORK; allow a generous grace for the expiry to be handled
        t0 = time.monotonic()
        while time.monotonic() - t0 < 3.0 and "m.expired" not in config_of(it):
            time.sleep(0.005)
        cfgset = sorted(config_of(it))
    finally:
        it.stop()
    res.evaluations += 1
    res.count("stale-expiry-pending.scenarios")
    res.hashes.add(h(["stale-pending", delay_ms, slow1_ms, slow2_ms]))
    arms = [t for k, t in log if k == "armed"]
    fires = [t for k, t in log if k == "fired"]
    wit = {"delay_ms": delay_ms, "slow1_ms": slow1_ms, "slow2_ms": slow2_ms, "config": cfg,
           "armed_at_ms": [round((t - arms[0]) * 1e3, 1) for t in arms],
           "fired_at_ms": [round((t - arms[0]) * 1e3, 1) for t in fires], "configuration": cfgset}
    if len(arms) != 2:
        res.count("stale-expiry-pending.not-set-up")     # the first expiry came before RETRY was queued
        return
    if not fires or cfgset != ["m", "m.expired"]:
        res.violation("C08:restarted-delay-lost-while-a-stale-expiry-was-pending/sync",
                      "the state was re-entered (delay restarted) and stayed active for %.0f ms more; its "
                      "delayed transition never fired (configuration %s)" % (
                          (time.monotonic() - arms[1]) * 1e3, cfgset), wit)
    elif len(fires) > 1 or fires[0] < arms[1] + delay_ms / 1e3 - 0.004:
        res.violation("C08:stale-expiry-fired-for-the-restarted-activation/sync",
                      "fired %s ms after the restart (delay %d ms), %d firing(s)" % (
                          round((fires[0] - arms[1]) * 1e3, 1), delay_ms, len(fires)), wit)


def _run_script(engine, machine, script, settle_ms):
    """script: [(at_ms, event)] ; returns after settle_ms beyond the last entry.  Sync: real time."""
    if engine == "sync":
        it = SyncInterpreter(machine).start()
        t0 = time.monotonic()
        for at, ev in script:
            d = at / 1e3 - (time.monotonic() - t0)
            if d > 0:
                time.sleep(d)
            try:
                it.send(ev)
            except Exception:  # noqa: BLE001  (an aborted transition is reported this way)
                pass
        time.sleep(settle_ms / 1e3)
        cfgset = config_of(it)
        it.stop()
        return cfgset

    out = {}

    async def body():
        it = Interpreter(machine)
        await it.start()
        t0 = asyncio.get_event_loop().time()
        for at, ev in script:
            d = at / 1e3 - (asyncio.get_event_loop().time() - t0)
            if d > 0:
                await asyncio.sleep(d)
            await it.send(ev)
        await asyncio.sleep(settle_ms / 1e3)
        out["cfg"] = config_of(it)
        await it.stop()
    run_virtual(body)
    return out["cfg"]


def timer_after_rolled_back_reentry(res, engine, how, delay):
    """A state owning an `after` timer is exited AND re-entered by a transition that then fails
    deeper down (a spawn factory yielding no machine) and is rolled back.  The state is active as
    before, so its delayed transition still has to fire - no later than its delay after the
    (re-)arming."""
    fired = []
    calls = {"n": 0}
    kid = create_machine({"id": "kid", "initial": "a", "states": {"a": {}}}, logic=MachineLogic())

    def factory(i, c, e):
        calls["n"] += 1
        return None if calls["n"] == 2 else kid
    w = {"initial": "c", "after": {str(delay): {"target": "t", "actions": ["fired"]}},
         "on": {"SELF": {"target": "w", "reenter": True}},
         "states": {"c": {"entry": [{"type": "spawn_kidm"}], "on": {"UP": {"target": "#m.w", "reenter": True}}}}}
    cfg = {"id": "m", "initial": "w", "states": {"w": w, "t": {}}}
    machine = create_machine(cfg, logic=MachineLogic(
        actions={"fired": lambda i, c, e, a: fired.append(1)}, services={"kidm": factory}))
    ev = {"self": "SELF", "up": "UP"}[how]
    with observe.LogCapture(logging.ERROR):
        cfgset = _run_script(engine, machine, [(delay // 2, ev)], 4 * delay + (60 if engine == "sync" else 0))
    res.evaluations += 1
    res.count("rolled-back-reentry." + engine)
    res.hashes.add(h(["rb-reentry", engine, how, delay]))
    if calls["n"] < 2:
        res.count("rolled-back-reentry.not-triggered")
        return
    if len(fired) != 1 or "m.t" not in cfgset:
        res.violation("C08:timer-lost-after-rolled-back-reentry/%s/%s" % (how, engine),
                      "the state stayed active for %d ms after the rollback (delay %d ms): fired %d times, "
                      "configuration %s" % (4 * delay, delay, len(fired), sorted(cfgset)),
                      {"engine": engine, "event": ev, "delay_ms": delay, "config": cfg})


def prefix_named_sibling_timer(res, engine, d1, d2):
    """Two parallel regions whose names extend one another (scan / scanner), each with its own
    timer.  Restarting the shorter-named region on its own must leave the other region's pending
    timer alone."""
    fired = []
    cfg = {"id": "m", "type": "parallel", "states": {
        "scan": {"initial": "on", "states": {"on": {}},
                 "after": {str(d1): {"actions": ["f1"]}}, "on": {"RESCAN": {"target": "scan", "reenter": True}}},
        "scanner": {"initial": "idle", "states": {"idle": {}},
                    "after": {str(d2): {"actions": ["f2"]}}},
        "scan_2": {"after": {str(d2 + 3): {"actions": ["f3"]}}}}}
    machine = create_machine(cfg, logic=MachineLogic(actions={
        n: (lambda i, c, e, a, _n=n: fired.append(_n)) for n in ("f1", "f2", "f3")}))
    _run_script(engine, machine, [(d2 // 2, "RESCAN")], d2 + d1 + (80 if engine == "sync" else 5))
    res.evaluations += 1
    res.count("prefix-named-sibling." + engine)
    res.hashes.add(h(["prefix-sibling", engine, d1, d2]))
    if fired.count("f2") != 1 or fired.count("f3") != 1:
        res.violation("C08:sibling-timer-lost-when-a-prefix-named-region-restarted/%s" % engine,
                      "regions 'scanner' and 'scan_2' were never left, yet their timers fired %d and %d times "
                      "(fired: %s)" % (fired.count("f2"), fired.count("f3"), fired),
                      {"engine": engine, "config": cfg, "restart_at_ms": d2 // 2})


def run_chunk(spec):
    observe.quiet_logs()
    observe.install_task_wrappers()
    res = Result()
    tier, ci = spec["tier"], spec["chunk"]
    wd = Watchdog(res, 400.0)
    rng = rng_for(spec["seed"], ID, ci, "scripts")
    variants = []
    for delays in ([10], [10, 17], [7, 7]):
        for kind in ("int", "str", "named", "callable"):
            for guard1 in (False, True):
                for nested in (False, True, "compound"):
                    variants.append((delays, kind, guard1, nested))
    jobs = []
    for vi, (delays, kind, guard1, nested) in enumerate(variants):
        tmpl = "%s-%s%s%s" % ("+".join(map(str, delays)), kind, "-guard" if guard1 else "",
                              "-nested" if nested is True else ("-compound" if nested else ""))
        for name, script in grid_scripts(delays[0]):
            if name == "guard-false-at-expiry" and not guard1:
                continue
            if name.startswith("ctx-changed") and kind != "callable":
                continue
            jobs.append(("async", delays, kind, guard1, nested, script, tmpl + ":" + name,
                         name == "idle"))
    nrand = 40 if tier == "quick" else 15000
    for j in range(nrand * NCHUNKS):
        delays, kind, guard1, nested = variants[j % len(variants)]
        jobs.append(("async", delays, kind, guard1, nested, None, "random", False))
    # sync: real time, fewer
    sync_variants = [([20], "int", False, False), ([20, 31], "named", False, True),
                     ([25], "callable", True, False), ([20], "str", False, "compound")]
    for delays, kind, guard1, nested in sync_variants:
        for name, script in grid_scripts(delays[0]):
            if name.startswith(("nop@", "self@-1", "self@+1")) and tier == "quick":
                continue
            if name == "guard-false-at-expiry" and not guard1:
                continue
            if name.startswith("ctx-changed") and kind != "callable":
                continue
            jobs.append(("sync", delays, kind, guard1, nested, script,
                         "%s-%s:%s" % ("+".join(map(str, delays)), kind, name), name == "idle"))
    n = 0
    for ji, (eng, delays, kind, guard1, nested, script, tmpl, idle) in enumerate(jobs):
        if ji % NCHUNKS != ci:
            continue
        wd.arm("job=%d %s" % (ji, tmpl))
        if script is None:
            script = random_script(rng, delays[0])
        wit = {"engine": eng, "delays_ms": delays, "delay_kind": kind, "guard": guard1,
               "nested": nested, "script": script, "template": tmpl}
        near = any(abs(o[0] - delays[0]) <= 1 for o in script)
        if near:
            res.count("schedules.near-deadline")
        if any(o[1] == "send" and o[2]["type"] in ("LEAVE", "SELF", "REP") for o in script):
            res.count("schedules.with-leave-or-reentry")
        if eng == "async":
            run_async(res, delays, kind, guard1, nested, script, tmpl.split(":")[0], idle, wit,
                      order_flip=(ji % 2 == 1))
        else:
            run_sync(res, delays, kind, guard1, nested, script, tmpl.split(":")[0], idle, wit)
        if n < 1 and ci == 0 and script:
            res.sample(wit)
            n += 1
    scen = [(mode, slow, d, at) for mode in ("stop", "leave") for slow in (60, 90) for d in (10, 20)
            for at in (d + 15, d + 30)]
    for si, sc in enumerate(scen * (1 if tier == "quick" else 6)):
        if si % NCHUNKS == ci:
            wd.arm("slow-action scenario %r" % (sc,))
            sync_expiry_behind_slow_action(res, *sc)
    for si, sc in enumerate([(20, 60, 90), (30, 80, 120), (15, 50, 70), (25, 70, 200)] * (1 if tier == "quick" else 4)):
        if (si + 5) % NCHUNKS == ci:
            wd.arm("stale expiry pending %r" % (sc,))
            restarted_timer_while_stale_expiry_pending(res, *sc)
    kk = 0
    for engine in ("sync", "async"):
        for how in ("self", "up"):
            for delay in (20, 30):
                if kk % NCHUNKS == ci:
                    wd.arm("rolled back re-entry %s %s" % (engine, how))
                    timer_after_rolled_back_reentry(res, engine, how, delay)
                kk += 1
        for d1, d2 in ((25, 40), (30, 50)):
            if kk % NCHUNKS == ci:
                wd.arm("prefix sibling %s" % engine)
                prefix_named_sibling_timer(res, engine, d1, d2)
            kk += 1
    wd.disarm()
    for k, v in observe.WRAP_COUNTS.items():
        res.count("wrapper." + k, v)
    return res.to_json()


def quota(counters, tier):
    out = []
    for k in ("schedules.async", "schedules.sync", "arms", "firings", "census.samples",
              "schedules.near-deadline", "schedules.with-leave-or-reentry", "wrapper.after_timer",
              "slow-action.scenarios.stop", "slow-action.scenarios.leave", "rolled-back-reentry.sync",
              "rolled-back-reentry.async", "prefix-named-sibling.sync", "prefix-named-sibling.async",
              "computed-delay.checked", "stale-expiry-pending.scenarios",
              "wrapper.schedule_state_tasks"):
        if counters.get(k, 0) == 0:
            out.append("monitor-never-reached:" + k)
    return out
