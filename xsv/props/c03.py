"""C03 — exit, then transition, then entry actions; exactly-once accounting; frame.

Brackets are delimited with public observations only: the marker actions that
precede an on_transition record (back to the previous on_transition /
on_event_received record) belong to that transition.
"""
from __future__ import annotations

from .. import drive, gen, observe, oracle
from ..observe import (Interpreter, MachineLogic, SyncInterpreter, config_of, create_machine, drain,
                       run_virtual)
from .common import Result, Watchdog, h, mk_chunks, plan_summary, rng_for

ID = "C03"
LEVEL = "exploration"
TECHNIQUE = ("runtime monitoring: ordering / event-identity / activity-replay / frame laws checked "
             "over every transition bracket of the recorded action log")
LEVEL_TEXT = ("every transition bracket of every run is checked against the four laws of the "
              "statement; held on the brackets explored")
LEVEL_NOTE = ("trusted: generator-known source/intended target of each transition, marker actions "
              "on every state and transition, harness wrappers on _after_timer/_invoke_service/"
              "_cancel_state_tasks (counted)")
RULE = ("profiles core/history/done/full (+ after timers with unreachable delays) x sync+async x "
        "random event walks with payloads; one evaluation = one transition bracket; non-trivial = "
        "bracket with >=1 exit and >=1 entry marker; distinct = hash(plan, relation, config before, "
        "event type)")
ASSUMPTIONS = [
    "brackets of eventless transitions and the initial entry are exempt from the event-identity law",
    "frame uses the deepest *proper* common ancestor of source and intended target (weakest reading)",
]

PROFILE_CYCLE = ["core", "history", "done", "full", "history", "core", "full", "done"]
TOTAL = {"quick": 1280, "thorough": 40000}
NEV = {"quick": 25, "thorough": 30}


def chunks(tier, seed):
    return mk_chunks(ID, tier, seed, TOTAL[tier], 16, timeout=900 if tier == "quick" else 3000)


def _marker_of(transition):
    for a in getattr(transition, "actions", []) or []:
        t = getattr(a, "type", "")
        if t.startswith("tr."):
            return t
    return None


def _mstate(name):  # "en.m.s0.a" -> ("en", "m.s0", "a")
    kind, rest = name[:2], name[3:]
    sid, _, ab = rest.rpartition(".")
    return kind, sid, ab


def _same_event(a, b):
    if a is b:
        return True
    if getattr(a, "type", None) != getattr(b, "type", object()):
        return False
    pa = getattr(a, "payload", getattr(a, "data", None))
    pb = getattr(b, "payload", getattr(b, "data", None))
    return pa == pb


def run_case(res: Result, spec, idx):
    pname = PROFILE_CYCLE[idx % len(PROFILE_CYCLE)]
    P = gen.profile(pname, p_after=0.25)
    crng = rng_for(spec["seed"], ID, spec["chunk"], idx, "case")
    case = gen.gen_case(crng, P)
    tree = case.tree
    nev = NEV[spec["tier"]]
    for engine in ("sync", "async"):
        if spec.get("only_engine") and spec["only_engine"] != engine:
            continue
        erng = rng_for(spec["seed"], ID, spec["chunk"], idx, "events")
        S = {"bad": None, "act": set(), "cur_ev": None, "started": False}

        def bad(key, what, extra=None):
            if S["bad"] is None:
                S["bad"] = (key, what, extra or {})

        def check_bracket(markers, tasks, txrec, cfg_before):
            """markers: list of act records; tasks: arm/cancel/invoke records; txrec: tx record"""
            tr = case.by_marker.get(_marker_of(txrec[3]))
            if tr is None:
                return
            rel = tr.relation()
            res.evaluations += 1
            res.count("brackets." + engine)
            res.count("shape." + rel)
            phase = 0  # 0 exits, 1 transition actions, 2 entries
            exits, entries = [], []
            for m in markers:
                name = m[1]
                if name.startswith("ex."):
                    if phase > 0:
                        bad("C03:exit-after-%s" % ("transition-action" if phase == 1 else "entry"),
                            "exit marker %s ran after %s in the same transition (%s)" % (
                                name, "transition actions" if phase == 1 else "an entry action", rel))
                    _, sid, ab = _mstate(name)
                    if ab == "a":
                        exits.append(sid)
                elif name.startswith("tr."):
                    if phase > 1:
                        bad("C03:transition-action-after-entry",
                            "transition marker %s ran after an entry action (%s)" % (name, rel))
                    phase = max(phase, 1)
                    if name != tr.marker:
                        bad("C03:foreign-transition-marker",
                            "marker %s ran inside the bracket of %s" % (name, tr.marker))
                elif name.startswith("en."):
                    phase = 2
                    _, sid, ab = _mstate(name)
                    if ab == "a":
                        entries.append(sid)
            # ancestor/descendant order
            for i in range(len(exits)):
                for j in range(i + 1, len(exits)):
                    if exits[j] != exits[i] and (exits[j] + ".").startswith(exits[i] + "."):
                        bad("C03:ancestor-exited-before-descendant",
                            "exit of %s ran before exit of its descendant %s (%s)" % (
                                exits[i], exits[j], rel))
            for i in range(len(entries)):
                for j in range(i + 1, len(entries)):
                    if entries[j] != entries[i] and (entries[i] + ".").startswith(entries[j] + "."):
                        bad("C03:descendant-entered-before-ancestor",
                            "entry of %s ran before entry of its ancestor %s (%s)" % (
                                entries[i], entries[j], rel))
            # event identity
            if tr.kind in ("on", "onDone", "after") and S["cur_ev"] is not None:
                for m in markers:
                    if m[1][:3] in ("ex.", "tr.", "en."):
                        res.count("event-identity.checked")
                        if not _same_event(m[2], S["cur_ev"]):
                            kind = m[1][:2]
                            how = "default-descent" if (
                                kind == "en" and tr.target is not None and
                                not tr.target.is_desc_of(tree.by_id[_mstate(m[1])[1]])
                                and tree.by_id[_mstate(m[1])[1]] is not tr.target) else "direct"
                            bad("C03:wrong-event-to-%s-action/%s" % (
                                {"ex": "exit", "tr": "transition", "en": "entry"}[kind], how),
                                "%s received event %r, not the triggering %r (%s)" % (
                                    m[1], getattr(m[2], "type", m[2]),
                                    getattr(S["cur_ev"], "type", None), rel))
                            break
            # frame
            if tr.target is None or (tr.target is tr.source and not tr.reenter):
                touched = set(exits) | set(entries) | {t[1] for t in tasks}
                if touched:
                    bad("C03:internal-transition-touched-states",
                        "targetless/internal transition %s entered/exited/cancelled %s" % (
                            tr.marker, sorted(touched)[:4]))
            else:
                D = oracle.proper_common_ancestor(tr.source, tr.target)
                pref = D.id + "."
                for sid in list(exits) + list(entries):
                    if sid != D.id and not sid.startswith(pref):
                        bad("C03:frame-violated-by-entry-exit/%s" % rel,
                            "state %s outside subtree(%s) saw entry/exit in %s transition %s" % (
                                sid, D.id, rel, tr.marker))
                for t in tasks:
                    sid = t[1]
                    res.count("frame.task-records")
                    if sid != D.id and not sid.startswith(pref):
                        bad("C03:frame-violated-by-%s/%s" % (t[0], rel),
                            "%s for state %s outside subtree(%s) in transition %s" % (
                                t[0], sid, D.id, tr.marker))
            if exits and entries:
                res.hashes.add(h([case.plan, rel, sorted(cfg_before), tr.event]))

        def replay(markers):
            act = S["act"]
            for m in markers:
                name = m[1]
                if name[:3] == "en.":
                    _, sid, ab = _mstate(name)
                    if ab == "a":
                        res.count("activity.entries")
                        if sid in act:
                            bad("C03:entered-while-active",
                                "entry actions of %s ran while it was already active" % sid)
                        act.add(sid)
                elif name[:3] == "ex.":
                    _, sid, ab = _mstate(name)
                    if ab == "a":
                        res.count("activity.exits")
                        if sid not in act:
                            bad("C03:exited-while-inactive",
                                "exit actions of %s ran while it was not active" % sid)
                    else:
                        act.discard(sid)

        def on_step(run, st):
            rec = run["rec"]
            if st.phase == "start" and isinstance(st.extra, Exception):
                res.count("refused." + type(st.extra).__name__)
                return True
            log = rec.log[st.log_from:]
            markers, tasks = [], []
            initial = st.phase == "start"
            cfg_before = frozenset(S["act"])
            for r in log:
                k = r[0]
                if k == "act":
                    if initial and r[1][:3] in ("ex.", "tr."):
                        # initial entry ends where the first eventless transition begins
                        replay(markers)
                        _check_initial(markers)
                        markers, tasks, initial = [], [], False
                    markers.append(r)
                elif k in ("arm", "cancel", "invoke"):
                    tasks.append(r)
                elif k == "ev":
                    if initial:
                        replay(markers)
                        _check_initial(markers)
                        initial = False
                    elif any(m[1][:3] in ("ex.", "en.", "tr.") for m in markers):
                        bad("C03:actions-outside-any-transition",
                            "state/transition markers ran with no on_transition report")
                    markers, tasks = [], []
                    S["cur_ev"] = r[1]
                elif k == "tx":
                    if "init" in str(getattr(r[3], "event", "")) and r[3].source is run["machine"] \
                            and not r[1]:
                        if initial:
                            replay(markers)
                            _check_initial(markers)
                            initial = False
                        markers, tasks = [], []
                        continue
                    if initial:
                        initial = False
                    cfg_b = frozenset(S["act"])
                    replay(markers)
                    check_bracket(markers, tasks, r, cfg_b)
                    if S["bad"] is None and frozenset(S["act"]) != r[2]:
                        diff = sorted(set(r[2]) ^ S["act"])
                        bad("C03:entry-exit-accounting-mismatch",
                            "configuration reported by on_transition differs from the replay of "
                            "entry/exit markers on %s" % diff[:4])
                    S["touched"] = {_mstate(m[1])[1] for m in markers if m[1][:3] in ("ex.", "en.")}
                    markers, tasks = [], []
                elif k == "timers":
                    # effect law: a state with no entry/exit in the bracket keeps its live timers
                    prev, cur = S.get("timers"), r[1]
                    if prev is not None and S.get("touched") is not None:
                        res.count("timer-census.compared")
                        for owner in set(prev) | set(cur):
                            if owner in S["touched"]:
                                continue
                            if prev.get(owner, 0) != cur.get(owner, 0):
                                bad("C03:untouched-state-timer-count-changed",
                                    "state %s was neither entered nor exited but its live timers "
                                    "went from %d to %d" % (owner, prev.get(owner, 0), cur.get(owner, 0)))
                    S["timers"] = cur
                    S["touched"] = None
            if initial:
                replay(markers)
                _check_initial(markers)
            if S["bad"] is None and frozenset(S["act"]) != st.cfg:
                bad("C03:entry-exit-accounting-mismatch",
                    "configuration at quiescence differs from the replay of entry/exit markers "
                    "on %s" % sorted(set(st.cfg) ^ S["act"])[:4])
            return S["bad"] is not None

        def _check_initial(markers):
            ent = [_mstate(m[1])[1] for m in markers if m[1][:3] == "en." and m[1].endswith(".a")]
            for i in range(len(ent)):
                for j in range(i + 1, len(ent)):
                    if ent[j] != ent[i] and (ent[i] + ".").startswith(ent[j] + "."):
                        bad("C03:descendant-entered-before-ancestor",
                            "initial entry: %s before its ancestor %s" % (ent[i], ent[j]))
            res.count("initial-entries")

        def setup(run):
            observe.SINK["log"] = run["rec"].log
            S["timers"] = None

            def on_tx(interp, rec_):
                run["rec"].log.append(("timers", observe.live_timers(interp)))
            run["rec"].on_tx = on_tx
            if idx % 5 == 3:
                # contained faults: a few "last" entry/exit markers (en.X.b / ex.X.b) log themselves
                # and then raise.  An action that raises skips the rest of ITS list only, and it is
                # the last of its list - so every law of this check must hold exactly as without.
                frng = rng_for(spec["seed"], ID, spec["chunk"], idx, "raisers", engine)
                acts = run["machine"].logic.actions
                cands = sorted(n for n in acts if n[:3] in ("en.", "ex.") and n.endswith(".b"))
                for n in frng.sample(cands, min(len(cands), frng.randint(1, 4))):
                    def raiser(i, c, e, a, _orig=acts[n]):
                        _orig(i, c, e, a)
                        raise RuntimeError("injected failure of a user action")
                    acts[n] = raiser
                res.count("runs.with-raising-last-markers." + engine)

        f = drive.run_sync if engine == "sync" else drive.run_async
        run = f(case, nev, erng, on_step, setup=setup)
        observe.SINK["log"] = None
        if idx % 600 == 0 and engine == "sync":
            res.sample({"profile": pname, "engine": engine, "events": run["events"][:6],
                        "machine": plan_summary(case)})
        if S["bad"] is not None:
            key, what, extra = S["bad"]
            res.violation(key, what, {"engine": engine, "events": run["events"],
                                      "profile": pname, "plan": case.plan},
                          case={"idx": idx, "engine": engine})


def sibling_region_abort(res: Result, engine, first, fault):
    """Frame law under a fault: one event fires a transition in each of two parallel regions and the
    one executed LATER is aborted (missing entry action / unresolvable target).  Its rollback may
    only touch its own region: the state the earlier transition entered stays active with its timer
    armed, its entry actions ran once, and nothing of it was exited."""
    log = []

    def mk(n):
        return lambda i, c, e, a: log.append(n)
    bad_target = {"missing-entry-action": "boom", "unresolvable-target": "#m.__nowhere__"}[fault]
    # executed first = smaller state id among equally deep sources
    ok_region, bad_region = ("ra", "rb") if first == "ok-first" else ("rb", "ra")
    regions = {
        ok_region: {"initial": "idle", "states": {
            "idle": {"on": {"GO": "armed"}},
            "armed": {"entry": ["armed.entry"], "exit": ["armed.exit"],
                      "after": {"900000": {"actions": ["tick"]}}}}},
        bad_region: {"initial": "idle", "states": {
            "idle": {"exit": ["other.idle.exit"], "on": {"GO": bad_target}},
            "boom": {"entry": ["not_implemented_anywhere"]}}}}
    cfg = {"id": "m", "type": "parallel", "states": regions}
    machine = create_machine(cfg, logic=MachineLogic(actions={
        n: mk(n) for n in ("armed.entry", "armed.exit", "tick", "other.idle.exit")}))
    out = {}
    if engine == "sync":
        it = SyncInterpreter(machine).start()
        try:
            it.send("GO")
        except Exception as x:  # noqa: BLE001
            out["raised"] = type(x).__name__
        out["cfg"], out["timers"] = config_of(it), dict(observe.live_timers(it))
        it.stop()
    else:
        async def body():
            it = Interpreter(machine)
            await it.start()
            await it.send("GO")
            await drain(it)
            out["cfg"], out["timers"] = config_of(it), dict(observe.live_timers(it))
            await it.stop()
        run_virtual(body)
    res.evaluations += 1
    res.count("sibling-region-abort." + engine)
    res.hashes.add(h(["sibling-abort", engine, first, fault]))
    armed = "m.%s.armed" % ok_region
    wit = {"engine": engine, "order": first, "fault": fault, "config": cfg, "log": log,
           "configuration": sorted(out["cfg"]), "timers": out["timers"], "raised": out.get("raised")}
    if first == "ok-first":
        # the earlier transition completed; only the later one is undone
        if armed not in out["cfg"]:
            res.count("sibling-region-abort.earlier-transition-also-undone(unjudged)")
            return
        if out["timers"].get(armed, 0) != 1:
            res.violation("C03:abort-in-one-region-cancelled-a-sibling-region's-timer/%s/%s" % (fault, engine),
                          "%s is active but has %d live timers" % (armed, out["timers"].get(armed, 0)), wit)
        elif log.count("armed.entry") != 1 or "armed.exit" in log:
            res.violation("C03:abort-in-one-region-disturbed-a-sibling-region/%s/%s" % (fault, engine),
                          "entry/exit accounting of %s: %s" % (armed, log), wit)
    else:
        # the failing transition ran first: the other region's transition still happens (or the whole
        # event is abandoned) - either way the armed state has a timer iff it is active
        if (armed in out["cfg"]) != (out["timers"].get(armed, 0) == 1):
            res.violation("C03:timer-census-disagrees-with-configuration-after-abort/%s/%s" % (fault, engine),
                          "%s active=%s, live timers=%d" % (armed, armed in out["cfg"], out["timers"].get(armed, 0)),
                          wit)


def run_chunk(spec):
    observe.quiet_logs()
    observe.install_task_wrappers()
    res = Result()
    only = spec.get("only_case")
    if only:
        run_case(res, dict(spec, only_engine=only.get("engine")), only["idx"])
        return res.to_json()
    base = spec["chunk"] * 100000
    wd = Watchdog(res, 400.0)
    for j in range(spec["n"]):
        wd.arm("idx=%d" % (base + j))
        run_case(res, spec, base + j)
    k = 0
    for engine in ("sync", "async"):
        for first in ("ok-first", "bad-first"):
            for fault in ("missing-entry-action", "unresolvable-target"):
                if k % 16 == spec["chunk"] % 16:
                    wd.arm("sibling region abort %s %s" % (engine, first))
                    sibling_region_abort(res, engine, first, fault)
                k += 1
    wd.disarm()
    for k, v in observe.WRAP_COUNTS.items():
        res.count("wrapper." + k, v)
    return res.to_json()


def quota(counters, tier):
    out = []
    for k in ("brackets.sync", "brackets.async", "event-identity.checked", "activity.entries",
              "activity.exits", "frame.task-records", "wrapper.after_timer",
              "wrapper.cancel_state_tasks", "initial-entries", "timer-census.compared"):
        if counters.get(k, 0) == 0:
            out.append("monitor-never-reached:" + k)
    return out
