"""C16 — behaviour is deterministic: across hash seeds, heap layouts, rebuilds and engines."""
from __future__ import annotations

import copy

from .. import drive, gen, observe
from .common import Result, Watchdog, h, plan_summary, rng_for

ID = "C16"
LEVEL = "exploration"
TECHNIQUE = ("runtime monitoring, differential: full Recorder traces of the same machine/logic/"
             "events compared across worker processes with different PYTHONHASHSEED, across "
             "in-process rebuilds with heap perturbation, and across the two interpreters")
LEVEL_TEXT = ("traces (configurations, contexts, ordered executed actions with event types) must be "
              "identical in every repetition; held on the repetitions explored")
LEVEL_NOTE = ("trusted: the harness itself is deterministic (seeded RNG, no set iteration in the "
              "generator); traces are compared by digest per step and field")
RULE = ("machines dense in parallel regions (fan-out 3-5, history into parallel states, handlers "
        "shared by several regions) x K hash seeds x 3 in-process rebuilds x 2 engines; one "
        "evaluation = one (case, repetition) comparison; non-trivial = case with a transition that "
        "entered or exited >=3 sibling regions, or a deep-history restore of >=2 leaves; distinct = "
        "hash(plan, events)")
ASSUMPTIONS = ["generated identifiers do not appear in the compared trace (no actors in this workload)"]

GROUPS = {"quick": 4, "thorough": 4}
SEEDS = {"quick": [0, 1, 2, 3], "thorough": list(range(16))}
PER_GROUP = {"quick": 100, "thorough": 400}
NEV = {"quick": 14, "thorough": 24}


def chunks(tier, seed):
    out = []
    for g in range(GROUPS[tier]):
        for hs in SEEDS[tier]:
            out.append({"name": f"C16-{tier}-g{g}-hs{hs}", "prop": ID, "tier": tier, "seed": seed,
                        "chunk": g, "hashseed": str(hs), "n": PER_GROUP[tier],
                        "timeout": 900 if tier == "quick" else 3000})
    return out


def _profile(dup=False):
    return gen.profile("full", p_dup_key=0.6 if dup else 0.0, p_parallel=0.5, p_compound=0.3, min_fan=3, max_fan=5, max_depth=3,
                       p_history=0.4, p_hist_target=0.35, p_hist_deep=0.7, p_root_on=0.7,
                       p_handle=0.5, max_states=45, maxit=20000, p_parallel_root=0.5, p_raise=0.04,
                       p_guard_obj=0.5, p_guard=0.4, p_prefix_key=0.25)


def _step_digest(st, acts):
    names = [a[0] for a in acts]
    return [h(sorted(st.cfg)), h(st.ctx), h(sorted(names)), h(acts), str(st.status)]


def _run(engine, case, nev, events, gtables, rng):
    trace = []
    stats = {"wide": 0, "deephist": 0}

    def on_step(run, st):
        if isinstance(st.extra, Exception):
            trace.append(["exc", type(st.extra).__name__])
            return True
        acts = [(r[1], getattr(r[2], "type", None)) for r in run["rec"].log[st.log_from:]
                if r[0] == "act"]
        if st.phase == "start":
            acts = [(a[0], None) for a in acts]  # init event type is engine specific (see C05)
        if engine == "pure":
            # the reducer returns the ordered actions it would execute
            acts = [(getattr(a, "type", str(a)), None) for a in (st.extra or [])]
            trace.append(_step_digest(st, acts))
            return False
        trace.append(_step_digest(st, acts))
        # coverage: regions entered/exited per transition bracket
        per_parent = {}
        for r in run["rec"].log[st.log_from:]:
            if r[0] == "act" and r[1][:3] in ("en.", "ex.") and r[1].endswith(".a"):
                sid = r[1][3:-2]
                node = case.tree.by_id.get(sid)
                if node is not None and node.parent is not None and node.parent.kind == "parallel":
                    per_parent.setdefault((r[1][:2], node.parent.id), set()).add(sid)
            elif r[0] == "tx":
                if any(len(v) >= 3 for v in per_parent.values()):
                    stats["wide"] += 1
                tr = case.by_marker.get(_marker_of(r[3]))
                if tr is not None and tr.target is not None and tr.target.kind == "history" \
                        and tr.target.hist == "deep" and len(r[2] - r[1]) >= 3:
                    stats["deephist"] += 1
                per_parent = {}
        return False
    f = {"sync": drive.run_sync, "async": drive.run_async, "pure": drive.run_pure}[engine]
    run = f(case, nev, rng, on_step, events=events, gtables=gtables)
    return trace, run["events"], stats


def _marker_of(transition):
    for a in getattr(transition, "actions", []) or []:
        t = getattr(a, "type", "")
        if t.startswith("tr."):
            return t
    return None


def _first_diff(a, b):
    fields = ["configuration", "context", "action-set", "action-order", "status"]
    for i, (x, y) in enumerate(zip(a, b)):
        if x != y:
            if x[0] == "exc" or y[0] == "exc":
                return "exception", i
            for j, f in enumerate(fields):
                if x[j] != y[j]:
                    return f, i
    if len(a) != len(b):
        return "length", min(len(a), len(b))
    return None


def _tmpl_shared_key_actors(engine):
    """Two children spawned from one service without explicit ids (their ids end in a uuid4), then
    addressed by the bare service key: who - if anybody - receives the message must not depend on
    the generated ids.  Trace = which child (by spawn order) received how many messages."""
    import asyncio
    from ..observe import Interpreter, MachineLogic, SyncInterpreter, create_machine, drain, run_virtual
    got = []
    order = []

    def born(i, c, e, a):
        order.append(id(i))

    def recv(i, c, e, a):
        got.append(order.index(id(i)) if id(i) in order else -1)
    kid = create_machine({"id": "kid", "initial": "a", "states": {"a": {"entry": ["born"], "on": {
        "MSG": {"actions": ["recv"]}}}}}, logic=MachineLogic(actions={"born": born, "recv": recv}))
    cfg = {"id": "p", "initial": "s", "states": {"s": {"on": {
        "SPAWN": {"actions": [{"type": "spawn_kid"}]},
        "TELL": {"actions": [{"type": "xstate.sendTo", "params": {"to": "kid", "event": "MSG"}}]},
        "FWD": {"actions": [{"type": "xstate.forwardTo", "params": {"to": "kid"}}]},
        "MSG": {}}}}}
    machine = create_machine(cfg, logic=MachineLogic(services={"kid": kid}))
    script = ["SPAWN", "TELL", "SPAWN", "TELL", "FWD", "SPAWN", "TELL"]
    if engine == "sync":
        import time
        it = SyncInterpreter(machine).start()
        for ev in script:
            it.send(ev)
            t0 = time.time()
            while time.time() - t0 < 2.0 and (len(order) < sum(1 for x in script[:script.index(ev) + 1]
                                                               if x == "SPAWN") and ev == "SPAWN"):
                time.sleep(0.002)
            time.sleep(0.004)
        it.stop()
    else:
        async def body():
            it = Interpreter(machine)
            await it.start()
            for ev in script:
                await it.send(ev)
                await drain(it)
                for a in list(it._actors.values()):
                    await drain(a)
            await it.stop()
        run_virtual(body)
    return [["recv", sorted(got)], ["n", len(order)]]


def _tmpl_rollback_rearm_order(engine):
    """A transition leaving a parallel state with a service in each of four regions fails (missing
    entry action in its target) and is rolled back: the services are invoked again - in an order
    that must be the same in every build and process.  Trace = order of the service calls."""
    import asyncio
    from ..observe import Interpreter, MachineLogic, SyncInterpreter, create_machine, drain, run_virtual
    calls = []

    def mk(n):
        def svc(i, c, e):
            calls.append(n)
            return n
        return svc
    regions = {"r%d" % k: {"invoke": {"src": "svc%d" % k, "id": "inv%d" % k},
                           "after": {"900000": {"actions": []}}} for k in (3, 1, 4, 2)}
    cfg = {"id": "m", "initial": "par", "states": {
        "par": {"type": "parallel", "states": regions, "on": {"OUT": "bad"}},
        "bad": {"entry": ["not_implemented_anywhere"]}}}
    machine = create_machine(cfg, logic=MachineLogic(services={"svc%d" % k: mk(k) for k in (1, 2, 3, 4)}))
    if engine == "sync":
        it = SyncInterpreter(machine).start()
        del calls[:]
        try:
            it.send("OUT")
        except Exception:  # noqa: BLE001
            pass
        it.stop()
    else:
        async def body():
            it = Interpreter(machine)
            await it.start()
            await drain(it)
            await asyncio.sleep(0.001)
            del calls[:]
            await it.send("OUT")
            await drain(it)
            await asyncio.sleep(0.001)
            await it.stop()
        run_virtual(body)
    return [["calls", list(calls)]]


TEMPLATES = {"shared-key-actors": _tmpl_shared_key_actors, "rollback-rearm-order": _tmpl_rollback_rearm_order}


def run_templates(res, traces):
    for name, fn in sorted(TEMPLATES.items()):
        for engine in ("sync", "async"):
            ref = None
            junk = []
            for rep in range(8):
                junk.append([object() for _ in range(37 + 211 * rep)])      # move the heap
                t = fn(engine)
                res.evaluations += 1
                res.count("templates.%s.%s" % (name, engine))
                res.hashes.add(h([name, engine, rep]))
                if ref is None:
                    ref = t
                    traces["T:%s:%s" % (name, engine)] = t
                elif t != ref:
                    res.violation("C16:template-rebuild-differs/%s/%s" % (name, engine),
                                  "two runs of the same program in one process differ: %s vs %s" % (ref, t),
                                  {"template": name, "engine": engine, "first": ref, "other": t})
                    break


def run_chunk(spec):
    observe.quiet_logs()
    res = Result()
    traces = {}
    nev = NEV[spec["tier"]]
    P0, P1 = _profile(), _profile(dup=True)
    wd = Watchdog(res, 400.0)
    base = spec["chunk"] * 100000
    only = spec.get("only_case")
    idxs = [only["idx"]] if only else [base + j for j in range(spec["n"])]
    for idx in idxs:
        wd.arm("idx=%d" % idx)
        # every third machine reuses local state names across parents (same-named leaves in
        # different regions): a tie-break on the local name would fall back to set order
        P = P1 if idx % 3 == 2 else P0
        case = gen.gen_case(rng_for(spec["seed"], ID, spec["chunk"], idx, "case"), P)
        if idx % 3 == 2:
            res.count("cases.shared-local-names")
        grng = rng_for(spec["seed"], ID, spec["chunk"], idx, "gt")
        gtables = [drive.rand_gtable(grng, case) for _ in range(nev + 1)]
        erng = rng_for(spec["seed"], ID, spec["chunk"], idx, "ev")
        t0, events, stats = _run("sync", case, nev, None, gtables, erng)
        traces[str(idx)] = t0
        if stats["wide"]:
            res.count("cases.wide-region-transition")
        if stats["deephist"]:
            res.count("cases.deep-history-restore-multi-leaf")
        if stats["wide"] or stats["deephist"]:
            res.hashes.add(h([case.plan, events]))
        junk = []
        for rep in range(2):
            junk.append([object() for _ in range(101 + 57 * rep)])  # move the heap
            t1, _, _ = _run("sync", case, nev, events, gtables, erng)
            res.evaluations += 1
            res.count("compared.in-process-rebuild")
            d = _first_diff(t0, t1)
            if d is not None:
                res.violation("C16:in-process-rebuild:%s" % d[0],
                              "two in-process runs of the same machine and events differ in %s at "
                              "step %d" % d, {"events": events, "plan": case.plan, "step": d[1]},
                              case={"idx": idx})
                break
        ta, _, _ = _run("async", case, nev, events, gtables, erng)
        res.evaluations += 1
        res.count("compared.sync-vs-async")
        d = _first_diff(t0, ta)
        if d is not None:
            res.violation("C16:sync-vs-async:%s" % d[0],
                          "sync and async traces differ in %s at step %d" % d,
                          {"events": events, "plan": case.plan, "step": d[1]}, case={"idx": idx})
        # the pure reducer, twice in this process and (through post()) under every hash seed
        tp, _, _ = _run("pure", case, nev, events, gtables, erng)
        traces[str(idx) + "p"] = tp
        tp2, _, _ = _run("pure", case, nev, events, gtables, erng)
        res.evaluations += 1
        res.count("compared.pure-rebuild")
        d = _first_diff(tp, tp2)
        if d is not None:
            res.violation("C16:pure-rebuild:%s" % d[0],
                          "two runs of the pure API over the same events differ in %s at step %d" % d,
                          {"events": events, "plan": case.plan, "step": d[1]}, case={"idx": idx})
        if idx % 1000 == 0 and spec.get("hashseed") == "0":
            res.sample({"events": events[:6], "steps": len(t0), "machine": plan_summary(case)})
    if spec["chunk"] == 0 and not only:
        wd.arm("templates")
        run_templates(res, traces)
    wd.disarm()
    out = res.to_json()
    out["traces"] = traces
    return out


def post(specs, results):
    """Cross-process oracle: identical per-step digests under every PYTHONHASHSEED."""
    counters = {"compared.across-hashseeds": 0}
    violations = []
    by_group = {}
    for spec, r in zip(specs, results):
        by_group.setdefault(spec["chunk"], []).append((spec, r.get("traces") or {}))
    for g, lst in by_group.items():
        ref_spec, ref = lst[0]
        for spec, tr in lst[1:]:
            for idx, t in tr.items():
                if idx not in ref:
                    continue
                counters["compared.across-hashseeds"] += 1
                if idx.startswith("T:"):
                    if ref[idx] != t:
                        violations.append({
                            "key": "C16:hashseed:template/%s" % idx[2:].replace(":", "/"),
                            "what": "PYTHONHASHSEED=%s and =%s give different traces for the template: %s vs %s" % (
                                ref_spec["hashseed"], spec["hashseed"], ref[idx], t),
                            "witness": {"hashseeds": [ref_spec["hashseed"], spec["hashseed"]], "template": idx},
                            "case": {"template": idx}, "spec": spec})
                    continue
                d = _first_diff(ref[idx], t)
                if d is not None:
                    violations.append({
                        "key": "C16:hashseed:%s%s" % ("pure-api:" if idx.endswith("p") else "", d[0]),
                        "what": "PYTHONHASHSEED=%s and =%s give different %s at step %d" % (
                            ref_spec["hashseed"], spec["hashseed"], d[0], d[1]),
                        "witness": {"hashseeds": [ref_spec["hashseed"], spec["hashseed"]],
                                    "step": d[1]},
                        "case": {"idx": int(idx.rstrip("p"))}, "spec": spec})
    return {"counters": counters, "violations": violations}


def quota(counters, tier):
    out = []
    for k in ("compared.across-hashseeds", "compared.in-process-rebuild", "compared.sync-vs-async",
              "compared.pure-rebuild", "cases.shared-local-names", "templates.shared-key-actors.sync",
              "templates.rollback-rearm-order.async",
              "cases.wide-region-transition", "cases.deep-history-restore-multi-leaf"):
        if counters.get(k, 0) == 0:
            out.append("monitor-never-reached:" + k)
    return out
