"""C19 — Python-defined machines and discovered logic equal their JSON counterparts."""
from __future__ import annotations

import copy
import re
import types

from .. import drive, fingerprint, gen, observe
from ..observe import Rec, build_logic, create_machine, xs
from .common import Result, Watchdog, h, plan_summary, rng_for

from xstate_statemachine import (MachineBuilder, MachineLogic, State, StateMachine,  # noqa: E402
                                 build_machine)
from xstate_statemachine import pythonic as py  # noqa: E402
from xstate_statemachine.exceptions import ImplementationMissingError  # noqa: E402

ID = "C19"
LEVEL = "exploration"
TECHNIQUE = ("runtime monitoring, differential: one generated machine is rendered as JSON, through the "
             "functional API (State/Transition/build_machine), through MachineBuilder and as a "
             "StateMachine subclass; the machines each API builds are compared with "
             "create_machine(json) by a deep structural fingerprint and by Recorder traces; repeated "
             "and overlapping builds from shared definition objects are compared with fresh ones; "
             "logic discovery is observed through identity of the bound callables, the exception at "
             "creation, and marker callables that record which implementation ran")
LEVEL_TEXT = ("fingerprints and traces must be identical for every rendering of every machine explored; "
              "every discovery outcome must match the naming rule; held on the cases explored")
LEVEL_NOTE = ("trusted: the renderers in this file (each maps one JSON key to the documented keyword of "
              "the API), fingerprint.machine_fp, the Recorder; constructs an API cannot express "
              "(history default target, custom ids, final output, maxIterations) are left out of the "
              "generated machines")
RULE = ("random statecharts (compound/parallel/history/final, always, onDone, after, invoke, root-level "
        "handlers, tags, meta; every third one with state names reused at different depths) x 3 API "
        "styles x random split of handlers between State(on=...) dicts and Transition objects x 10-16 "
        "events; discovery: random name sets in camelCase / snake_case (digits, acronyms, double "
        "underscores) x module / provider / MachineLogic subclass x missing, extra, built-in-named and "
        "composite-guard names; one evaluation = one rendered machine compared or one discovery run; "
        "non-trivial = rendering with >=2 Transition objects and nesting / discovery with >=3 names; "
        "distinct = hash(plan, style, split) / hash(names, source kind)")
ASSUMPTIONS = ["'the config that definition denotes': a Transition object from State A to State B on "
               "event E denotes an entry in A's on[E] list (declaration order) whose target is B",
               "a Transition-object handler for an event replaces (as the API documents by behaviour) "
               "nothing else: the generator never declares the same event both in State(on=...) and as "
               "a Transition object"]
NCHUNKS = 16
LIBERR = xs.XStateMachineError


def chunks(tier, seed):
    return [{"name": f"C19-{tier}-{i}", "prop": ID, "tier": tier, "seed": seed, "chunk": i,
             "timeout": 900 if tier == "quick" else 3000} for i in range(NCHUNKS)]


def _profile(dup):
    return gen.profile("full", p_dup_key=0.5 if dup else 0.0, p_after=0.15, p_invoke=0.2,
                       p_history=0.25, p_hist_target=0.25, p_hist_default=0.0, p_custom_id=0.0,
                       final_out=False, max_states=14, p_parallel=0.3, p_guard=0.3, p_root_on=0.5,
                       max_cands=4, p_forbidden=0.08)


# ---------------------------------------------------------------------------
# the abstract machine: a materialised config + a choice of which handlers become Transitions
# ---------------------------------------------------------------------------
def prepare(case, rng):
    """-> (reference config, moved) where moved = {state id: [event,...]} handlers to be written as
    Transition objects; tags/meta are sprinkled in; a few entry/exit markers get names a decorated
    method can carry."""
    cfg = gen.materialize(copy.deepcopy(case.plan))
    cfg.pop("maxIterations", None)
    moved = {}
    hooks = {}

    def walk(sd, node):
        if rng.random() < 0.25:
            sd["tags"] = ["t%d" % rng.randint(0, 3), "busy"][:rng.randint(1, 2)]
        if rng.random() < 0.2:
            sd["meta"] = {"label": node.key, "n": rng.randint(0, 9)}
        if node.parent is not None and node.kind != "history":
            for fld in ("entry", "exit"):
                lst = sd.get(fld)
                if isinstance(lst, list) and lst and isinstance(lst[-1], str) and rng.random() < 0.2:
                    new = "hook%s%s%d" % (fld.capitalize(), node.key.capitalize(), node.index)
                    hooks[new] = (node.id, fld, lst[-1])
                    lst[-1] = new
        for ev, lst in list((sd.get("on") or {}).items()):
            if lst is None:
                NULLS[0] += 1     # `null`: the event is forbidden here; stays in the State's on dict
                continue
            if node.kind == "history" or ev == "" or node.parent is None:
                continue          # machine-level handlers live in the root State's on dict
            ok = all(isinstance(t, dict) and (t.get("guard") is None or isinstance(t.get("guard"), str))
                     and not _targets_root(case, t) for t in lst)
            if ok and rng.random() < 0.45:
                moved.setdefault(node.id, []).append(ev)
        for c in node.children:
            sub = sd.get("states", {}).get(c.key)
            if sub is not None:
                walk(sub, c)
    walk(cfg, case.tree.root)
    return cfg, moved, hooks


def _targets_root(case, t):
    # no State object stands for the machine itself, so such a handler cannot be a Transition object
    mk = next((a for a in t.get("actions", []) if isinstance(a, str) and a.startswith("tr.")), None)
    tr = case.by_marker.get(mk)
    return t.get("target") is not None and (tr is None or tr.target is None or tr.target.parent is None)


def _state_kwargs(sd, node, moved_events):
    kw = {}
    on = {k: copy.deepcopy(v) for k, v in (sd.get("on") or {}).items() if k not in moved_events}
    if on:
        kw["on"] = on
    for src, dst in (("entry", "entry"), ("exit", "exit"), ("after", "after"), ("invoke", "invoke"),
                     ("always", "always"), ("tags", "tags"), ("meta", "meta")):
        if src in sd:
            kw[dst] = copy.deepcopy(sd[src])
    if "onDone" in sd:
        kw["on_done"] = copy.deepcopy(sd["onDone"])
    return kw


def render_states(cfg, case, moved):
    """State objects for the whole tree: ({node id: State}, top-level list, root State)"""
    objs = {}

    def mk(sd, node, parent_sd):
        kw = _state_kwargs(sd, node, moved.get(node.id, []))
        if node.kind == "final":
            kw["final"] = True
        elif node.kind == "parallel":
            kw["parallel"] = True
        elif node.kind == "history":
            kw["history"] = sd.get("history", "shallow")
        if parent_sd.get("initial") == node.key:
            kw["initial"] = True
        kids = [mk(sd["states"][c.key], c, sd) for c in node.children if c.key in sd.get("states", {})]
        if kids:
            kw["states"] = kids
        s = State(node.key, **kw)
        objs[node.id] = s
        return s
    root_node = case.tree.root
    top = [mk(cfg["states"][c.key], c, cfg) for c in root_node.children]
    rkw = _state_kwargs(cfg, root_node, moved.get(root_node.id, []))
    if root_node.kind == "parallel":
        rkw["parallel"] = True
    root = State("", **rkw)
    objs[root_node.id] = root
    return objs, top, root


SHAPES = {}
NULLS = [0]


def render_transitions(cfg, case, moved, objs, rng):
    """Transition objects for the moved handlers, in declaration order per (state, event)"""
    out = []

    def sd_of(node):
        sd = cfg
        for a in list(reversed(list(node.ancestors(include_self=True))))[1:]:
            sd = sd["states"][a.key]
        return sd
    for nid, evs in moved.items():
        node = case.tree.by_id[nid]
        if node.parent is None:
            continue                      # root handlers stay in the root State's on dict
        sd = sd_of(node)
        for ev in evs:
            ts = []
            for t in sd["on"][ev]:
                tgt = None
                if t.get("target") is not None:
                    tr = case.by_marker.get(next((a for a in t.get("actions", []) if isinstance(a, str)
                                                  and a.startswith("tr.")), None))
                    tgt = objs[tr.target.id] if tr is not None and tr.target is not None else None
                src = objs[nid]
                if tgt is None:
                    ts.append(src.internal(ev, guard=t.get("guard"), actions=copy.deepcopy(t.get("actions"))))
                elif rng.random() < 0.5:
                    ts.append(src.to(tgt, event=ev, guard=t.get("guard"),
                                     actions=copy.deepcopy(t.get("actions")), reenter=bool(t.get("reenter"))))
                else:
                    ts.append(py.transition(src, ev, tgt, guard=t.get("guard"),
                                            actions=copy.deepcopy(t.get("actions")),
                                            reenter=bool(t.get("reenter"))))
            if len(ts) > 1 and rng.random() < 0.5:
                # any bracketing of t1 | t2 | ... | tn denotes the same ordered list
                def union(lo, hi):
                    if hi - lo == 1:
                        return ts[lo]
                    cut = rng.randint(lo + 1, hi - 1)
                    if cut - lo == 1 and hi - cut > 1:
                        SHAPES["transition|group"] = SHAPES.get("transition|group", 0) + 1
                    elif cut - lo > 1 and hi - cut > 1:
                        SHAPES["group|group"] = SHAPES.get("group|group", 0) + 1
                    elif cut - lo > 1:
                        SHAPES["group|transition"] = SHAPES.get("group|transition", 0) + 1
                    return union(lo, cut) | union(cut, hi)
                out.append(union(0, len(ts)))
            else:
                out.extend(ts)
    return out


def reference_config(cfg, case, moved):
    """The JSON the Python definition denotes: moved handlers keep their place in on[event]; root
    handlers that cannot be Transition objects are unchanged."""
    return cfg


# ---------------------------------------------------------------------------
# logic in each style
# ---------------------------------------------------------------------------
def logic_parts(case, rec, gt, names, hooks):
    lg = build_logic(case, rec, gt, names=names + list(hooks), services=observe.build_services(case, rec))
    return lg


def functional(cfg, case, moved, rng, lg, ctx):
    objs, top, root = render_states(cfg, case, moved)
    ts = render_transitions(cfg, case, moved, objs, rng)
    acts = [py.action(n)(_wrap(f)) for n, f in lg.actions.items()]
    grds = [py.guard(n)(_wrap(f)) for n, f in lg.guards.items()]
    svcs = [py.service(n)(_wrap(f)) for n, f in lg.services.items()]
    definition = dict(id=cfg["id"], states=top, transitions=ts, actions=acts, guards=grds, services=svcs,
                      context=ctx, root=root)
    return definition, (lambda d=definition: build_machine(**d)), len(ts)


def _wrap(f):
    # a fresh function object per registration: decorators write attributes onto it
    if getattr(f, "__code__", None) is not None and f.__code__.co_argcount == 2:
        return lambda c, e, _f=f: _f(c, e)
    if getattr(f, "__code__", None) is not None and f.__code__.co_argcount == 3 \
            and "interp" in f.__code__.co_varnames[:1]:
        return lambda i, c, e, _f=f: _f(i, c, e)
    return lambda *a, _f=f: _f(*a)


def builder(cfg, case, moved, rng, lg, ctx):
    b = MachineBuilder(cfg["id"])
    if ctx is not None:
        b.context(ctx)
    root_node = case.tree.root
    ntrans = 0
    for c in root_node.children:
        sd = cfg["states"][c.key]
        mv = moved.get(c.id, [])
        kw = _state_kwargs(sd, c, mv)
        if c.kind == "final":
            kw["final"] = True
        elif c.kind == "history":
            kw["history"] = sd.get("history", "shallow")
        if cfg.get("initial") == c.key:
            kw["initial"] = True
        b.state(c.key, **kw)
        if "states" in sd:
            b.child_states(c.key, initial=sd.get("initial"), states=copy.deepcopy(sd["states"]),
                           parallel=(c.kind == "parallel"))
        elif c.kind == "parallel":
            b.child_states(c.key, parallel=True)
        for ev in mv:
            for t in sd["on"][ev]:
                ntrans += 1
                b.transition(c.key, ev, t.get("target"), guard=t.get("guard"),
                             actions=copy.deepcopy(t.get("actions")), reenter=bool(t.get("reenter")),
                             internal=t.get("target") is None)
    rprops = {}
    for k in ("on", "entry", "exit", "after", "invoke", "onDone", "always", "tags", "meta"):
        if k in cfg:
            rprops[k] = copy.deepcopy(cfg[k])
    if root_node.kind == "parallel":
        rprops["type"] = "parallel"
    if rprops:
        b.root(**rprops)
    for n, f in lg.actions.items():
        b.action(n, f)
    for n, f in lg.guards.items():
        b.guard(n, f)
    for n, f in lg.services.items():
        b.service(n, f)
    return b, (lambda: b.build()), ntrans


def class_style(cfg, case, moved, rng, lg, ctx, hooks, tag):
    objs, top, root = render_states(cfg, case, moved)
    ts = render_transitions(cfg, case, moved, objs, rng)
    ns = {"machine_id": cfg["id"], "initial_context": ctx, "machine_root": root}
    used_hooks = set()
    for s, node in zip(top, case.tree.root.children):
        if rng.random() < 0.6:
            s.name = ""                   # the metaclass infers it from the attribute name
        ns[node.key] = s
    for i, t in enumerate(ts):
        ns["tr_%d" % i] = t
    # decorated methods: @state.enter / @state.exit for the hook names, @action/@guard/@service else
    for new, (nid, fld, _old) in hooks.items():
        st = objs.get(nid)
        if st is None:
            continue
        lst = st.entry if fld == "entry" else st._exit_actions
        if not lst or lst[-1] != new:
            continue
        lst.pop()                         # the decorator appends the name again
        f = lg.actions[new]
        snake = re.sub(r"([A-Z])", lambda m_: "_" + m_.group(1).lower(), new)
        if py._snake_to_camel(snake) != new:
            lst.append(new)
            continue

        def meth(self, i, c, e, a, _f=f):
            return _f(i, c, e, a)
        meth.__name__ = snake
        ns[snake] = (st.enter if fld == "entry" else st.exit)(meth)
        used_hooks.add(new)
    k = 0
    for n, f in lg.actions.items():
        if n in used_hooks:
            continue
        k += 1

        def am(self, i, c, e, a, _f=f):
            return _f(i, c, e, a)
        ns["act_%d" % k] = py.action(n)(am)
    for n, f in lg.guards.items():
        k += 1

        def gm(self, c, e, _f=f):
            return _f(c, e)
        ns["grd_%d" % k] = py.guard(n)(gm)
    for n, f in lg.services.items():
        k += 1

        def sm(self, i, c, e, _f=f):
            return _f(i, c, e)
        ns["svc_%d" % k] = py.service(n)(sm)
    cls = type("M%s" % tag, (StateMachine,), ns)
    return cls, (lambda: cls.create_machine()), len(ts)


# ---------------------------------------------------------------------------
# comparison
# ---------------------------------------------------------------------------
def _trace(machine, rec, case, events, gtables, gt):
    from ..observe import SyncInterpreter, config_of
    it = SyncInterpreter(machine)
    it.use(rec)
    out = []
    try:
        gt.clear()
        gt.update(gtables[0])
        mark = len(rec.log)
        it.start()
        out.append([h(sorted(config_of(it))), h(it.context), h([r[1] for r in rec.log[mark:] if r[0] == "act"])])
        for i, ev in enumerate(events):
            gt.clear()
            gt.update(gtables[i + 1])
            mark = len(rec.log)
            it.send(drive._mk_event(ev))
            out.append([h(sorted(config_of(it))), h(it.context),
                        h([r[1] for r in rec.log[mark:] if r[0] == "act"]), it.status])
    except LIBERR as e:
        out.append(["liberr", type(e).__name__])
    finally:
        try:
            it.stop()
        except Exception:  # noqa: BLE001
            pass
    return out


def api_case(res, spec, idx, tier):
    dup = idx % 3 == 2
    case = gen.gen_case(rng_for(spec["seed"], ID, spec["chunk"], idx, "case"), _profile(dup))
    rng = rng_for(spec["seed"], ID, spec["chunk"], idx, "render")
    cfg, moved, hooks = prepare(case, rng)
    if dup:
        res.count("api.cases-with-names-reused-at-different-depths")
    names = gen.action_names(case.plan)
    nev = 10 if tier == "quick" else 16
    grng = rng_for(spec["seed"], ID, spec["chunk"], idx, "gt")
    gtables = [drive.rand_gtable(grng, case) for _ in range(nev + 1)]
    # reference
    rec0, gt0 = Rec(), {}
    lg0 = logic_parts(case, rec0, gt0, names, hooks)
    try:
        ref = create_machine(copy.deepcopy(cfg), logic=lg0)
    except LIBERR:
        res.count("api.reference-rejected")
        return
    fp0 = fingerprint.machine_fp(ref)
    erng = rng_for(spec["seed"], ID, spec["chunk"], idx, "ev")
    events = []
    # events chosen on the reference run
    it_events = drive.run_sync(_with_plan(case), nev, erng, lambda run, st: False, gtables=gtables)["events"]
    events = it_events
    t0 = _trace(ref, rec0, case, events, gtables, gt0)
    ctx = copy.deepcopy(cfg.get("context"))
    for style in ("functional", "builder", "class"):
        rec1, gt1 = Rec(), {}
        lg1 = logic_parts(case, rec1, gt1, names, hooks)
        srng = rng_for(spec["seed"], ID, spec["chunk"], idx, "style", style)
        witness = {"style": style, "config": _jsonable(cfg), "moved_to_Transition_objects": moved}
        try:
            if style == "functional":
                definition, build, nt = functional(cfg, case, moved, srng, lg1, copy.deepcopy(ctx))
            elif style == "builder":
                definition, build, nt = builder(cfg, case, {k: v for k, v in moved.items()
                                                            if case.tree.by_id[k].parent is case.tree.root},
                                                srng, lg1, copy.deepcopy(ctx))
            else:
                definition, build, nt = class_style(cfg, case, moved, srng, lg1, copy.deepcopy(ctx), hooks,
                                                    "%d" % idx)
            m1 = build()
        except LIBERR as e:
            res.violation("C19:%s-api-rejects-expressible-machine/%s" % (style, type(e).__name__),
                          "%s: %s" % (type(e).__name__, str(e)[:160]), witness, case={"idx": idx})
            continue
        res.evaluations += 1
        res.count("api.built." + style)
        res.count("api.transition-objects", nt)
        for k_, v_ in SHAPES.items():
            res.count("api.unions." + k_, v_)
        SHAPES.clear()
        res.count("api.null-handlers", NULLS[0])
        NULLS[0] = 0
        if nt >= 2 and any(n.depth >= 2 for n in case.tree.order):
            res.hashes.add(h([case.plan, style, sorted(moved.items())]))
        d = fingerprint.diff(fp0, fingerprint.machine_fp(m1))
        if d:
            kind = re.sub(r"\[\d+\]", "[]", d[0].split(":")[0]).split("/")
            kind = "/".join([k for k in kind if k and not re.fullmatch(r"s\d+|d\d+|states(\[\])?|[A-D]|\[\]", k)][-2:])
            res.violation("C19:%s-api-builds-different-machine/%s%s" % (style, kind, "/reused-names" if dup else ""),
                          "differs from create_machine(config): %s" % d[:3], witness, case={"idx": idx})
            continue
        t1 = _trace(m1, rec1, case, events, gtables, gt1)
        res.count("api.traces-compared")
        if t1 != t0:
            step = next((i for i, (x, y) in enumerate(zip(t0, t1)) if x != y), min(len(t0), len(t1)))
            res.violation("C19:%s-api-behaves-differently" % style, "traces differ at step %d" % step,
                          dict(witness, events=events), case={"idx": idx})
            continue
        # independence: a second build from the SAME definition, after the first machine ran,
        # equals the reference again (structure, context, behaviour)
        if style == "builder":
            # a per-build context override belongs to that build alone
            over = {"override": idx}
            try:
                mo = definition.build(context=copy.deepcopy(over))
            except LIBERR as e:
                res.violation("C19:builder-build-with-context-rejected/%s" % type(e).__name__, str(e)[:160],
                              witness, case={"idx": idx})
                continue
            res.count("api.builder-context-override-builds")
            got = fingerprint.machine_fp(mo)
            want = fingerprint.machine_fp(create_machine(dict(copy.deepcopy(cfg), context=copy.deepcopy(over)),
                                                         logic=lg0))
            d = fingerprint.diff(want, got)
            if d:
                res.violation("C19:builder-context-override-builds-different-machine",
                              "build(context=...) differs from the config with that context: %s" % d[:3],
                              witness, case={"idx": idx})
                continue
        try:
            m2 = build()
        except LIBERR as e:
            res.violation("C19:%s-second-build-rejected/%s" % (style, type(e).__name__), str(e)[:160],
                          witness, case={"idx": idx})
            continue
        res.count("api.rebuilds")
        d = fingerprint.diff(fp0, fingerprint.machine_fp(m2))
        if d:
            res.violation("C19:%s-second-build-differs" % style,
                          "the second build from one definition differs from the config: %s" % d[:3],
                          witness, case={"idx": idx})
            continue
        if m2 is m1 or m2.states is m1.states:
            res.violation("C19:%s-builds-share-objects" % style, "two builds returned shared nodes",
                          witness, case={"idx": idx})
            continue
        rec1.log.clear()
        t2 = _trace(m2, rec1, case, events, gtables, gt1)
        if t2 != t0:
            res.violation("C19:%s-second-build-behaves-differently" % style,
                          "after the first machine ran, a second build from the same definition behaves "
                          "differently", dict(witness, events=events), case={"idx": idx})
            continue
        # overlapping definitions: the same State objects, fewer Transition objects
        if style == "functional" and definition["transitions"]:
            res.count("api.overlapping-definitions")
            half = definition["transitions"][: len(definition["transitions"]) // 2]
            d2 = dict(definition, transitions=half)
            try:
                m3 = build_machine(**d2)
                fresh = _fresh_functional(cfg, case, moved, idx, spec, lg1, ctx, len(half))
                d = fingerprint.diff(fingerprint.machine_fp(fresh), fingerprint.machine_fp(m3))
                if d:
                    res.violation("C19:definitions-sharing-State-objects-leak-into-each-other",
                                  "a definition reusing the State objects of an earlier build with fewer "
                                  "transitions differs from the same definition built from fresh objects: "
                                  "%s" % d[:3], witness, case={"idx": idx})
            except LIBERR:
                res.count("api.overlap-rejected")
    if idx % 400 == 0:
        res.sample({"kind": "api", "machine": plan_summary(case), "moved": moved,
                    "events": [e["type"] for e in events][:8]})


def _fresh_functional(cfg, case, moved, idx, spec, lg, ctx, n_keep):
    srng = rng_for(spec["seed"], ID, spec["chunk"], idx, "style", "functional")
    definition, _, _ = functional(cfg, case, moved, srng, lg, copy.deepcopy(ctx))
    definition["transitions"] = definition["transitions"][:n_keep]
    return build_machine(**definition)


def _with_plan(case):
    c2 = copy.copy(case)
    plan = copy.deepcopy(case.plan)
    plan.pop("maxIterations", None)
    c2.plan = plan
    return c2


def _jsonable(v):
    if isinstance(v, dict):
        return {str(k): _jsonable(x) for k, x in v.items()}
    if isinstance(v, (list, tuple)):
        return [_jsonable(x) for x in v]
    if callable(v):
        return "<callable>"
    return v


# ---------------------------------------------------------------------------
# logic discovery
# ---------------------------------------------------------------------------
WORDS = ["load", "user", "data", "http", "retry", "ok", "v2", "id", "x", "fetch", "is", "ready", "api"]


def rand_name(rng):
    n = rng.randint(1, 4)
    ws = [rng.choice(WORDS) for _ in range(n)]
    return ws


def camel(ws):
    return ws[0] + "".join(w[:1].upper() + w[1:] for w in ws[1:])


def snake(ws):
    return "_".join(ws)


def discovery_case(res, spec, idx, tier):
    rng = rng_for(spec["seed"], ID, spec["chunk"], idx, "disc")
    log = []
    n_a, n_g, n_s = rng.randint(1, 4), rng.randint(0, 3), rng.randint(0, 2)
    used = set()

    def fresh():
        for _ in range(50):
            ws = rand_name(rng)
            if camel(ws) not in used and snake(ws) not in used and camel(ws) not in \
                    ("and", "or", "not", "stateIn", "log", "assign", "raise", "stop", "cancel", "emit", "pure",
                     "choose", "escalate"):
                used.add(camel(ws))
                used.add(snake(ws))
                return ws
        return ["zz%d" % len(used)]
    acts = [fresh() for _ in range(n_a)]
    grds = [fresh() for _ in range(n_g)]
    svcs = [fresh() for _ in range(n_s)]
    # how the CONFIG spells each name, and how the IMPLEMENTATION spells it
    # judged combinations: config camelCase <- implementation camelCase or snake_case; config
    # snake_case <- implementation snake_case.  (config snake_case <- implementation camelCase is
    # not promised by the statement's "snake/camel map" and is left out.)
    cfg_names, impl_names = {}, {}
    for kind, lst in (("a", acts), ("g", grds), ("s", svcs)):
        cfg_names[kind], impl_names[kind] = [], []
        for w in lst:
            r = rng.random()
            if r < 0.45:
                c, i = camel(w), snake(w)
            elif r < 0.75:
                c, i = camel(w), camel(w)
            else:
                c, i = snake(w), snake(w)
            cfg_names[kind].append(c)
            impl_names[kind].append(i)
            res.count("discovery.spelling.%s" % ("same" if c == i else "snake-impl-for-camel-name"))
    # drop one implementation sometimes
    missing = None
    if rng.random() < 0.3:
        kind = rng.choice([k for k in "ags" if impl_names[k]])
        j = rng.randrange(len(impl_names[kind]))
        missing = (kind, cfg_names[kind][j])
        impl_names[kind][j] = None
    # config: every action in entry/transition actions; guards partly inside composites
    # (names are referenced from every kind of place a config can name them: entry/exit, transitions
    #  of ordinary, FINAL and compound states, delayed and eventless transitions, onDone, the root)
    states = {"a": {"on": {}, "entry": [], "exit": []}, "b": {"on": {}},
              "z": {"type": "final", "on": {}},
              "c": {"initial": "c1", "states": {"c1": {}, "cf": {"type": "final", "on": {}}}}}
    root_on = {}
    off = rng.randrange(8)
    for i, n in enumerate(cfg_names["a"]):
        where = (i + off) % 8
        res.count("discovery.action-site.%d" % where)
        if where == 0:
            states["a"]["entry"].append(n)
        elif where == 1:
            states["a"]["on"].setdefault("E%d" % i, []).append({"target": "b", "actions": [{"type": n}]})
        elif where == 2:
            states["a"]["exit"].append(n)
        elif where == 3:
            states["z"]["on"]["UNDO%d" % i] = {"target": "a", "actions": [n]}
        elif where == 4:
            states["b"].setdefault("after", {})["100000"] = {"target": "a", "actions": [n]}
        elif where == 5:
            states["c"]["onDone"] = {"target": "a", "actions": [n]}
        elif where == 6:
            states["c"]["states"]["cf"]["on"]["REOPEN%d" % i] = {"target": "c1", "actions": [{"type": n}]}
        else:
            root_on["R%d" % i] = {"actions": [n]}
    composite = False
    for i, n in enumerate(cfg_names["g"]):
        if rng.random() < 0.5 and len(cfg_names["g"]) > 1:
            composite = True
            other = cfg_names["g"][(i + 1) % len(cfg_names["g"])]
            form = rng.choice(["and", "or", "not-in-and", "nested"])
            if form == "and":
                g = {"type": "and", "children": [n, other]}
            elif form == "or":
                g = {"type": "or", "params": {"guards": [{"type": n}, other]}}
            elif form == "not-in-and":
                g = {"type": "and", "children": [n, {"type": "not", "params": {"guard": other}}]}
            else:
                g = {"type": "and", "children": [n, {"type": "or", "children": [
                    other, {"type": "stateIn", "params": {"stateId": "#m.a"}}]}]}
        else:
            g = n
        if (i + off) % 3 == 2:
            res.count("discovery.guard-on-a-final-state-transition")
            states["z"]["on"].setdefault("GZ%d" % i, []).append({"target": "a", "guard": g})
        else:
            states["a"]["on"].setdefault("G%d" % i, []).append({"target": "b", "guard": g})
    for i, n in enumerate(cfg_names["s"]):
        if i == 0:
            states["b"]["invoke"] = {"src": n, "onDone": "a"}
        else:
            states["a"]["entry"].append("spawn_" + n)
    builtin_used = rng.random() < 0.5
    if builtin_used:
        states["a"]["entry"].append({"type": "xstate.assign", "params": {"k": 1}})
        states["a"]["entry"].append({"type": "log", "params": {"message": "hi"}})
    cfg = {"id": "m", "initial": "a", "context": {}, "states": states}
    if root_on:
        cfg["on"] = root_on
    # implementations
    impls = {}

    def mk(kind, name, ident):
        if kind == "a":
            def f(interpreter, context, event, action_def):
                log.append(ident)
        elif kind == "g":
            def f(context, event):
                log.append(ident)
                return True
        else:
            def f(interpreter, context, event):
                log.append(ident)
                return 1
        f.__name__ = name
        f.__qualname__ = name
        return f
    for kind in "ags":
        for cn, im in zip(cfg_names[kind], impl_names[kind]):
            if im is not None:
                impls[(kind, cn)] = mk(kind, im, (kind, cn))
    source = rng.choice(["module", "provider", "subclass"])
    extra = mk("a", "unused_helper", ("a", "unused"))
    witness = {"config": cfg, "implementations": {k[1]: v.__name__ for k, v in impls.items()},
               "source": source, "missing": missing}
    res.evaluations += 1
    res.count("discovery.runs." + source)
    if len(impls) >= 3:
        res.hashes.add(h([cfg, sorted(witness["implementations"].items()), source]))
    try:
        if source == "module":
            mod = types.ModuleType("xsv_logic_%d" % idx)
            for f in list(impls.values()) + [extra]:
                f.__module__ = mod.__name__
                setattr(mod, f.__name__, f)
            machine = create_machine(copy.deepcopy(cfg), logic_modules=[mod])
        elif source == "provider":
            ns = {}
            for (kind, cn), f in impls.items():
                ns[f.__name__] = _as_method(kind, f)
            ns["unused_helper"] = _as_method("a", extra)
            prov = type("Provider%d" % idx, (), ns)()
            machine = create_machine(copy.deepcopy(cfg), logic_providers=[prov])
        else:
            # the methods are spread over the subclass itself, an intermediate subclass and mixins on
            # either side of MachineLogic in the bases: all of them are methods of the instance
            parts = {"own": {}, "mid": {}, "mixin_before": {}, "mixin_after": {}}
            for (kind, cn), f in impls.items():
                parts[rng.choice(sorted(parts))][f.__name__] = _as_method(kind, f)
            mid = type("Mid%d" % idx, (MachineLogic,), parts["mid"])
            mix_b = type("MixB%d" % idx, (), parts["mixin_before"])
            mix_a = type("MixA%d" % idx, (), parts["mixin_after"])
            logic = type("Logic%d" % idx, (mix_b, mid, mix_a), parts["own"])()
            for k_, v_ in parts.items():
                if v_:
                    res.count("discovery.subclass-methods-on." + k_)
            machine = create_machine(copy.deepcopy(cfg), logic=logic)
    except ImplementationMissingError as e:
        res.count("discovery.missing-reported")
        if missing is None:
            res.violation("C19:discovery-misses-available-implementation/%s" % source,
                          "every referenced name has an implementation under one of the two spellings, yet: "
                          "%s" % str(e)[:160], witness, case={"idx": idx})
        elif missing[1] not in str(e) and camel_or_snake_variants(missing[1]).isdisjoint(_words(str(e))):
            res.violation("C19:missing-implementation-error-names-wrong-thing/%s" % source, str(e)[:200],
                          witness, case={"idx": idx})
        return
    except LIBERR as e:
        res.violation("C19:discovery-raised-%s/%s" % (type(e).__name__, source), str(e)[:160], witness,
                      case={"idx": idx})
        return
    except Exception as e:  # noqa: BLE001
        res.violation("C19:discovery-raised-raw-%s/%s" % (type(e).__name__, source), repr(e)[:160], witness,
                      case={"idx": idx})
        return
    if missing is not None:
        if source == "subclass":
            # explicit logic objects are validated when the name is first used (C18): not judged here
            res.count("discovery.subclass-missing-deferred")
            return
        res.violation("C19:missing-implementation-accepted-at-creation/%s/%s" % (source, missing[0]),
                      "no implementation for %r, yet create_machine returned a machine" % (missing[1],),
                      witness, case={"idx": idx})
        return
    # every referenced name is bound to the intended callable
    regs = {"a": machine.logic.actions, "g": machine.logic.guards, "s": machine.logic.services}
    for (kind, cn), f in impls.items():
        got = regs[kind].get(cn)
        res.count("discovery.bindings-checked")
        target = getattr(got, "__func__", got)
        if got is None or (target is not f and getattr(target, "__wrapped_impl__", None) is not f):
            res.violation("C19:discovery-binds-wrong-or-no-callable/%s/%s" % (source, kind),
                          "%r is bound to %r, expected the implementation named %r" % (
                              cn, getattr(target, "__name__", target), f.__name__), witness, case={"idx": idx})
            return
    if composite:
        res.count("discovery.composite-guards-accepted")
    if builtin_used:
        res.count("discovery.builtins-not-required")
    if cfg_names["s"][1:]:
        res.count("discovery.spawn-directives")


def _words(s):
    return set(re.findall(r"[A-Za-z0-9_]+", s))


def camel_or_snake_variants(n):
    return {n, py._snake_to_camel(n)}


def _as_method(kind, f):
    # closures, not default arguments: MachineLogic classifies subclass methods by arity
    if kind == "a":
        def m(self, interpreter, context, event, action_def):
            return f(interpreter, context, event, action_def)
    elif kind == "g":
        def m(self, context, event):
            return f(context, event)
    else:
        def m(self, interpreter, context, event):
            return f(interpreter, context, event)
    m.__name__ = f.__name__
    m.__wrapped_impl__ = f
    return m


def class_spelling_mix_case(res, spec, idx):
    """Class-based definitions may mix the two spellings of a top-level state - a nested
    `class name(State)` holding child States and a plain `State(...)` attribute - in any order: the
    machine is the config with the states in DECLARATION order."""
    rng = rng_for(spec["seed"], ID, spec["chunk"], idx, "mix")
    n = rng.randint(2, 5)
    parallel = rng.random() < 0.6
    log = []
    ns = {"machine_id": "mix", "initial_context": {"n": 0}}
    if parallel:
        ns["machine_root"] = State(parallel=True)
    cfg = {"id": "mix", "context": {"n": 0}, "states": {}}
    if parallel:
        cfg["type"] = "parallel"
    names, nested_flags = [], []
    init = rng.randrange(n)
    for i in range(n):
        key = "r%d%s" % (i, rng.choice(["", "x", "_b"]))
        kids = ["k%d" % j for j in range(rng.randint(1, 3))]
        nested = rng.random() < 0.5
        nested_flags.append(nested)
        names.append(key)
        sd = {"initial": kids[0], "states": {}}
        objs = []
        for j, k in enumerate(kids):
            ksd = {"entry": ["enter_%s_%s" % (key, k)], "on": {"TICK": {"actions": ["tick_%s" % key]}}}
            if j + 1 < len(kids):
                ksd["on"]["NEXT"] = kids[j + 1]
            sd["states"][k] = ksd
            objs.append(State("" if nested else k, initial=(j == 0), entry=list(ksd["entry"]),
                              on=copy.deepcopy(ksd["on"])))
        if not parallel and i == init:
            cfg["initial"] = key
        cfg["states"][key] = sd
        if nested:
            body = {k: o for k, o in zip(kids, objs)}
            kwds = {"initial": True} if (not parallel and i == init) else {}
            # class <key>(State[, initial=True]):  <kid> = State(...)
            ns[key] = types.new_class(key, (State,), kwds, lambda ns_, _b=body: ns_.update(_b))
        else:
            ns[key] = State(states=objs, initial=(not parallel and i == init))
    if "initial" not in cfg and not parallel:
        cfg["initial"] = names[0]
    acts = sorted({a for sd in cfg["states"].values() for k in sd["states"].values()
                   for a in k["entry"] + k["on"]["TICK"]["actions"]})

    def mk(nm):
        return lambda i_, c, e, a, _n=nm: log.append(_n)
    k = 0
    for a in acts:
        k += 1

        def am(self, i_, c, e, a_, _n=a):
            log.append(_n)
        ns["act_%d" % k] = py.action(a)(am)
    res.evaluations += 1
    res.count("class-mix.definitions")
    if any(nested_flags) and not all(nested_flags):
        res.count("class-mix.both-spellings")
        res.hashes.add(h(["mix", names, nested_flags, parallel]))
    witness = {"declaration_order": names, "nested_class": nested_flags, "parallel_root": parallel, "config": cfg}
    try:
        cls = type("Mix%d" % idx, (StateMachine,), ns)
        m1 = cls.create_machine()
        m0 = create_machine(copy.deepcopy(cfg), logic=MachineLogic(actions={a: mk(a) for a in acts}))
    except LIBERR as e:
        res.violation("C19:class-api-rejects-mixed-spellings/%s" % type(e).__name__, str(e)[:160], witness,
                      case={"idx": idx, "mix": True})
        return
    d = fingerprint.diff(fingerprint.machine_fp(m0), fingerprint.machine_fp(m1))
    if d:
        res.violation("C19:class-api-mixed-spellings-build-a-different-machine",
                      "nested-class and instance states declared as %s: %s" % (
                          list(zip(names, nested_flags)), d[:3]), witness, case={"idx": idx, "mix": True})
        return
    traces = []
    for m in (m0, m1):
        del log[:]
        it = xs.SyncInterpreter(m).start()
        it.send("TICK")
        it.send("NEXT")
        it.send("TICK")
        traces.append((list(log), sorted(it.current_state_ids)))
        it.stop()
    res.count("class-mix.traces-compared")
    if traces[0] != traces[1]:
        res.violation("C19:class-api-mixed-spellings-behave-differently",
                      "config: %s ; class: %s" % (traces[0], traces[1]), witness, case={"idx": idx, "mix": True})


def precedence_case(res, spec, idx):
    """a user implementation named like a built-in is the one that runs"""
    from ..observe import SyncInterpreter
    rng = rng_for(spec["seed"], ID, spec["chunk"], idx, "prec")
    name = rng.choice(["log", "assign", "raise", "emit", "cancel", "stop", "sendTo", "send_parent", "pure",
                       "choose", "enqueueActions", "xstate.log", "xstate.assign", "escalate"])
    ran = []

    def user_impl(interpreter, context, event, action_def):
        ran.append(name)
    how = rng.choice(["dict", "subclass", "builder", "functional"])
    cfg = {"id": "m", "initial": "a", "context": {"k": 0},
           "states": {"a": {"on": {"GO": {"target": "b", "actions": [{"type": name, "params": {
               "k": 5, "event": "X", "message": "m", "sendId": "s", "id": "c", "to": "nobody",
               "actions": [], "branches": []}}]}}}, "b": {}}}
    witness = {"builtin_name": name, "how": how, "config": cfg}
    res.evaluations += 1
    res.count("precedence.runs." + how)
    try:
        if how == "dict":
            m = create_machine(cfg, logic=MachineLogic(actions={name: user_impl}))
        elif how == "subclass":
            if not name.isidentifier():
                how = "dict"
                m = create_machine(cfg, logic=MachineLogic(actions={name: user_impl}))
            else:
                def meth(self, interpreter, context, event, action_def):
                    ran.append(name)
                m = create_machine(cfg, logic=type("L", (MachineLogic,), {name: meth})())
        elif how == "builder":
            m = (MachineBuilder("m").context({"k": 0}).state("a", initial=True, on=cfg["states"]["a"]["on"])
                 .state("b").action(name, user_impl).build())
        else:
            m = build_machine(id="m", context={"k": 0},
                              states=[State("a", initial=True, on=cfg["states"]["a"]["on"]), State("b")],
                              actions=[py.action(name)(user_impl)])
        it = SyncInterpreter(m).start()
        it.send("GO")
        it.stop()
    except LIBERR as e:
        res.violation("C19:user-action-named-like-builtin-rejected/%s" % type(e).__name__, str(e)[:160],
                      witness, case={"idx": idx})
        return
    if ran != [name]:
        res.violation("C19:builtin-ran-instead-of-user-implementation/%s" % how,
                      "action %r: the user implementation ran %d times" % (name, len(ran)), witness,
                      case={"idx": idx})


def run_chunk(spec):
    observe.quiet_logs()
    res = Result()
    tier, ci = spec["tier"], spec["chunk"]
    wd = Watchdog(res, 400.0)
    n_api = 25 if tier == "quick" else 400
    n_disc = 150 if tier == "quick" else 3000
    only = spec.get("only_case")
    base = ci * 100000
    idxs = [only["idx"]] if only else [base + j for j in range(n_api)]
    for idx in idxs:
        if idx % 100000 >= 50000:
            continue
        wd.arm("api idx=%d" % idx)
        api_case(res, spec, idx, tier)
    idxs = [only["idx"]] if only else [base + 50000 + j for j in range(n_disc)]
    for idx in idxs:
        if idx % 100000 < 50000:
            continue
        wd.arm("disc idx=%d" % idx)
        discovery_case(res, spec, idx, tier)
        if idx % 3 == 0:
            precedence_case(res, spec, idx)
        if idx % 2 == 0:
            class_spelling_mix_case(res, spec, idx)
    wd.disarm()
    return res.to_json()


def quota(counters, tier):
    out = []
    for k in ("api.built.functional", "api.built.builder", "api.built.class", "api.traces-compared",
              "api.rebuilds", "api.transition-objects", "api.overlapping-definitions",
              "api.cases-with-names-reused-at-different-depths", "api.unions.transition|group",
              "api.unions.group|transition", "api.builder-context-override-builds", "api.null-handlers", "class-mix.both-spellings",
              "class-mix.traces-compared", "discovery.action-site.3", "discovery.action-site.4", "discovery.action-site.5",
              "discovery.action-site.6", "discovery.action-site.7", "discovery.guard-on-a-final-state-transition",
              "discovery.runs.module", "discovery.runs.provider", "discovery.runs.subclass",
              "discovery.bindings-checked", "discovery.missing-reported",
              "discovery.composite-guards-accepted", "discovery.builtins-not-required",
              "discovery.spawn-directives", "precedence.runs.dict", "precedence.runs.subclass"):
        if counters.get(k, 0) == 0:
            out.append("monitor-never-reached:" + k)
    return out
