"""C17 — code generator: the output rebuilds the source machine exactly, or nothing is written."""
from __future__ import annotations

import ast
import contextlib
import copy
import importlib
import importlib.util
import io
import json
import os
import re
import shutil
import sys
import tempfile

from .. import fingerprint, gen, observe
from ..observe import MachineLogic, SyncInterpreter, config_of, create_machine, xs
from .common import Result, Watchdog, h, rng_for

ID = "C17"
LEVEL = "exploration"
TECHNIQUE = ("runtime monitoring, differential: the real CLI entry point is run per (machine JSON, "
             "template, sync/async, 1/2 files) in a scratch directory; exit status and directory "
             "contents are observed; every written file is parsed, imported under a sys.addaudithook "
             "monitor (writes outside the scratch directory, process spawns, sockets, a canary), the "
             "machine it builds is compared with create_machine(json) by the harness's deep "
             "fingerprint and by Recorder traces with the same table logic swapped in; regeneration "
             "and --check are run on the fresh output")
LEVEL_TEXT = ("for every explored input the CLI either refused (non-zero, nothing written) or wrote "
              "modules that parse, import silently, rebuild the same machine (structure and traces) "
              "and regenerate byte-identically; held on the inputs explored")
LEVEL_NOTE = ("trusted: fingerprint.machine_fp (independent of the CLI's own gate), the table logic, "
              "and an in-process stand-in for the CLI's 'python -m black' subprocess (same black, "
              "same options) used to keep a run under 0.3 s; every 12th run uses the real subprocess "
              "and the two outputs are required to be byte-identical")
RULE = ("inputs: random statecharts (compound/parallel/history with defaults/final with output, "
        "always, onDone, after with numeric and named delays, invoke with id/input/handlers, custom "
        "ids, root handlers, tags, meta, context) decorated with every guard spelling (string, "
        "object with params, and/or/not through children / params.guards / params.guard, stateIn), "
        "parameterised actions and built-ins; hand-shaped machines with hostile and colliding names; "
        "the 104 Stately exports; x 5 templates x sync/async x 1/2 files; one evaluation = one CLI "
        "run judged; non-trivial = run that wrote files for a machine with nesting or structured "
        "guards; distinct = hash(config, template, mode, files)")
ASSUMPTIONS = ["a CLI refusal is never judged as such: the statement allows it for any input",
               "'import without side effects' = no audit event of the monitored kinds and no canary "
               "file while importing and building; logging configuration is not counted"]
NCHUNKS = 16
TEMPLATES = ["pythonic-class", "pythonic-builder", "pythonic-functional", "class-json", "function-json"]
LIBERR = xs.XStateMachineError
STATELY = os.path.join(os.path.dirname(observe.REPO_SRC), "tests", "tests_cli", "stately_machines")


def chunks(tier, seed):
    return [{"name": f"C17-{tier}-{i}", "prop": ID, "tier": tier, "seed": seed, "chunk": i,
             "timeout": 900 if tier == "quick" else 7000} for i in range(NCHUNKS)]


# ---------------------------------------------------------------------------
# audit monitor
# ---------------------------------------------------------------------------
AUDIT = {"armed": False, "allow": None, "events": []}
_WRITE_FLAGS = os.O_WRONLY | os.O_RDWR | os.O_CREAT | os.O_TRUNC | os.O_APPEND


def _hook(event, args):
    if not AUDIT["armed"]:
        return
    try:
        if event == "open":
            path, mode, flags = (list(args) + [None, None, None])[:3]
            writing = (isinstance(mode, str) and any(c in mode for c in "wax+")) or \
                      (isinstance(flags, int) and flags & _WRITE_FLAGS)
            if writing and not isinstance(path, int):      # an int is an already-open descriptor (a pipe)
                p = os.path.abspath(os.fspath(path)) if isinstance(path, (str, bytes, os.PathLike)) else str(path)
                allow = AUDIT["allow"]
                if isinstance(p, bytes):
                    p = p.decode("utf-8", "replace")
                if p == os.devnull or (allow and p.startswith(allow)):
                    return
                AUDIT["events"].append(("write-open", p))
        elif event in ("os.system", "subprocess.Popen", "os.exec", "os.posix_spawn", "os.spawn",
                       "socket.connect", "socket.bind", "socket.getaddrinfo", "ctypes.dlopen",
                       "os.remove", "os.rename", "os.rmdir", "shutil.rmtree", "os.kill", "os.fork",
                       "os.mkdir", "urllib.Request", "ftplib.connect", "smtplib.connect"):
            if event in ("os.mkdir", "os.remove", "os.rename", "os.rmdir", "shutil.rmtree") and args:
                try:
                    p = os.path.abspath(os.fsdecode(args[0]))
                except Exception:  # noqa: BLE001
                    p = None
                allow = AUDIT["allow"]
                if p and allow and (p + os.sep).startswith(allow):
                    return
            if event == "subprocess.Popen" and AUDIT.get("allow_black") and \
                    "black" in " ".join(map(str, (args[1] if len(args) > 1 else []) or [])):
                return
            AUDIT["events"].append((event, repr(args)[:120]))
    except Exception:  # noqa: BLE001  (a monitor must never break the program it watches)
        pass


_HOOKED = []


def install_hook():
    if not _HOOKED:
        sys.addaudithook(_hook)
        _HOOKED.append(1)


@contextlib.contextmanager
def armed(allow=None, allow_black=False):
    AUDIT["events"] = []
    AUDIT["allow"] = os.path.abspath(allow) + os.sep if allow else None
    AUDIT["allow_black"] = allow_black
    AUDIT["armed"] = True
    try:
        yield AUDIT["events"]
    finally:
        AUDIT["armed"] = False


# ---------------------------------------------------------------------------
# running the CLI in this (worker) process
# ---------------------------------------------------------------------------
_FAST = {"on": False, "orig": None}


def fast_black(on):
    """Stand-in for the CLI's `python -m black --quiet --line-length=N -` subprocess."""
    from xstate_statemachine.cli import postprocess
    if _FAST["orig"] is None:
        _FAST["orig"] = postprocess.format_source
    if on:
        import black

        def format_source(code, *, line_length=postprocess._LINE_LENGTH):
            try:
                out = black.format_str(code, mode=black.Mode(line_length=line_length))
            except Exception:  # noqa: BLE001  (black declines: the CLI emits the code unformatted)
                return code
            return out if out else code
        postprocess.format_source = format_source
    else:
        postprocess.format_source = _FAST["orig"]
    _FAST["on"] = on


def run_cli_process(argv, cwd, hashseed=None):
    """The CLI as users run it: a fresh `python -m xstate_statemachine.cli` in `cwd` (tools the CLI
    calls - isort, black - see that working directory and whatever is on disk in it)."""
    import subprocess
    env = dict(os.environ, PYTHONPATH=observe.REPO_SRC, PYTHONDONTWRITEBYTECODE="1")
    if hashseed is not None:
        env["PYTHONHASHSEED"] = str(hashseed)      # every process of a user has its own string hashes
    try:
        # -P: like the installed `xsm` console script, the working directory is NOT on sys.path (with a
        # bare `python -m` a generated token.py / json.py there would shadow the standard library's)
        r = subprocess.run([sys.executable, "-P", "-m", "xstate_statemachine.cli"] + argv, cwd=cwd, env=env,
                           capture_output=True, text=True, timeout=300)
    except subprocess.TimeoutExpired:
        return "crash:Timeout", "", []
    return r.returncode, (r.stdout + r.stderr)[-2000:], []


def run_cli(argv, cwd, allow, process=False, hashseed=None):
    """-> (exit code or 'crash:<Exc>', output text, audit events)"""
    if process:
        return run_cli_process(argv, cwd, hashseed)
    from xstate_statemachine.cli.__main__ import main
    old_argv, old_cwd = sys.argv, os.getcwd()
    buf = io.StringIO()
    code = 0
    import logging
    root = logging.getLogger()
    handlers = list(root.handlers)
    try:
        os.chdir(cwd)
        sys.argv = ["xsm"] + argv
        with armed(allow=allow, allow_black=True) as events:
            try:
                with contextlib.redirect_stdout(buf), contextlib.redirect_stderr(buf):
                    main()
            except SystemExit as e:
                code = e.code if isinstance(e.code, int) else (0 if e.code is None else 1)
            except Exception as e:  # noqa: BLE001
                code = "crash:%s" % type(e).__name__
                buf.write(repr(e)[:300])
        ev = list(events)
    finally:
        sys.argv = old_argv
        os.chdir(old_cwd)
        for hd in list(root.handlers):
            if hd not in handlers:
                root.removeHandler(hd)
        root.setLevel(logging.WARNING)
    return code, buf.getvalue(), ev


# ---------------------------------------------------------------------------
# table logic that answers every name
# ---------------------------------------------------------------------------
class AnyActions(dict):
    def __init__(self, sink):
        super().__init__()
        self.sink = sink
        self["_nonempty"] = lambda i, c, e, a: None

    def _mk(self, k):
        sink = self.sink
        return lambda i, c, e, a, _k=k: sink.append(("act", _k))

    def get(self, k, default=None):
        if isinstance(k, str) and k not in BUILTIN_NAMES:
            return self._mk(k)
        return default

    def __contains__(self, k):
        return isinstance(k, str) and k not in BUILTIN_NAMES

    def __getitem__(self, k):
        if k == "_nonempty":
            return dict.__getitem__(self, k)
        return self._mk(k)


class AnyGuards(dict):
    def __init__(self, sink, salt):
        super().__init__()
        self.sink, self.salt = sink, salt
        self["_nonempty"] = lambda c, e: True

    def _mk(self, k):
        def g(c, e, _k=k):
            v = int(h([_k, self.salt["n"]])[:2], 16) % 3 != 0
            self.sink.append(("guard", _k, v))
            return v
        return g

    def get(self, k, default=None):
        return self._mk(k) if isinstance(k, str) else default

    def __contains__(self, k):
        return isinstance(k, str)

    def __getitem__(self, k):
        if k == "_nonempty":
            return dict.__getitem__(self, k)
        return self._mk(k)


class AnyServices(AnyGuards):
    def _mk(self, k):
        def s(i, c, e, _k=k):
            self.sink.append(("svc", _k))
            return {"v": 1}
        return s


BUILTIN_NAMES = set()


def _init_builtins():
    from xstate_statemachine.actions import BUILTIN_ACTION_ALIASES
    BUILTIN_NAMES.update(BUILTIN_ACTION_ALIASES)


def table_logic(sink, salt):
    return MachineLogic(actions=AnyActions(sink), guards=AnyGuards(sink, salt), services=AnyServices(sink, salt))


def event_names(machine):
    out = set()

    def walk(n):
        for ev in n.on:
            if ev and not ev.startswith(("done.", "error.", "after.", "xstate.")) and ev != "*" \
                    and not ev.endswith(".*"):
                out.add(ev)
        for c in n.states.values():
            walk(c)
    walk(machine)
    return sorted(out)


def trace(machine, events):
    sink, salt = [], {"n": 0}
    machine.logic = table_logic(sink, salt)
    it = SyncInterpreter(machine)
    out = []
    try:
        it.start()
        out.append([sorted(config_of(it)), h(it.context), h(sink)])
        for i, ev in enumerate(events):
            salt["n"] = i + 1
            del sink[:]
            it.send(ev)
            out.append([sorted(config_of(it)), h(it.context), h(sink), it.status])
    except LIBERR as e:
        out.append(["liberr", type(e).__name__])
    except Exception as e:  # noqa: BLE001
        out.append(["raw", type(e).__name__, str(e)[:60]])
    finally:
        try:
            it.stop()
        except Exception:  # noqa: BLE001
            pass
    return out


# ---------------------------------------------------------------------------
# loading what the CLI wrote
# ---------------------------------------------------------------------------
def load_generated(outdir, files, template, config):
    """-> machine built the way the generated runner builds it (import under the audit monitor)"""
    from xstate_statemachine import StateMachine
    logic_file = next((f for f in files if f.endswith("_logic.py")), None) or files[0]
    modname = logic_file[:-3]
    sys.path.insert(0, outdir)
    old_dont = sys.dont_write_bytecode
    sys.dont_write_bytecode = True
    loaded = []
    try:
        by_name = {}
        for f in files:
            importlib.invalidate_caches()
            name = f[:-3]
            if name in sys.stdlib_module_names or name in sys.modules:
                # a machine called "Token" / "json": load the file itself, under a private name
                spec = importlib.util.spec_from_file_location("xsv_generated_" + name, os.path.join(outdir, f))
                m_ = importlib.util.module_from_spec(spec)
                spec.loader.exec_module(m_)
                by_name[name] = m_
            else:
                by_name[name] = importlib.import_module(name)
            loaded.append(by_name[name])
        mod = by_name[modname]
        if template == "pythonic-class":
            classes = [v for v in vars(mod).values() if isinstance(v, type) and issubclass(v, StateMachine)
                       and v is not StateMachine]
            return classes[0].create_machine()
        if template in ("pythonic-builder", "pythonic-functional"):
            return mod.build()
        if template == "class-json":
            classes = [v for v in vars(mod).values() if isinstance(v, type) and v.__module__ == mod.__name__]
            return create_machine(copy.deepcopy(config), logic_providers=[classes[0]()])
        return create_machine(copy.deepcopy(config), logic_modules=[mod])
    finally:
        sys.dont_write_bytecode = old_dont
        sys.path.remove(outdir)
        for f in files:
            m_ = sys.modules.get(f[:-3])
            if m_ is not None and str(getattr(m_, "__file__", "")).startswith(outdir):
                sys.modules.pop(f[:-3], None)       # only what was imported from the scratch directory


# ---------------------------------------------------------------------------
# inputs
# ---------------------------------------------------------------------------
def json_effect(e, rng):
    k = e["$"]
    if k in ("inc", "set"):
        return {"type": "xstate.assign", "params": {"assignment": {e["key"]: e.get("val", 1)}}}
    if k in ("raise", "braise"):
        # raised to an event nobody handles: the params travel, no self-feeding chains
        return {"type": "xstate.raise", "params": {"event": {"type": "NOP_" + e["ev"]}}}
    if k == "emit":
        return {"type": "xstate.emit", "params": {"event": {"type": e["ev"]}}}
    if k == "logcb":
        return {"type": "xstate.log", "params": {"message": "m" + str(e.get("tag", ""))}}
    if k == "choose":
        return {"type": "xstate.choose", "params": {"conditions": [
            dict(({"guard": b["guard"]} if "guard" in b else {}), actions=json_plan(b["actions"], rng))
            for b in e["branches"]]}}
    return {"type": "fx" + k.capitalize(), "params": {"n": len(e.get("actions", []))}}


def json_plan(p, rng):
    if isinstance(p, dict):
        if "$" in p:
            return json_effect(p, rng)
        return {k: json_plan(v, rng) for k, v in p.items()}
    if isinstance(p, list):
        return [json_plan(x, rng) for x in p]
    return p


def decorate(cfg, case, rng):
    """every guard spelling, parameterised actions, named delays, invoke input, tags/meta/description"""
    atoms = case.atoms or ["g0"]
    use_internal = rng.random() < 0.2

    def guard_form(g):
        if not isinstance(g, str):
            return g
        r = rng.random()
        other = rng.choice(atoms)
        if r < 0.3:
            return g
        if r < 0.4:
            return {"type": g}
        if r < 0.5:
            return {"type": g, "params": {"limit": rng.randint(1, 9), "tag": "x"}}
        if r < 0.6:
            return {"type": "and", "params": {"guards": [g, other]}}
        if r < 0.7:
            return {"type": "or", "children": [g, {"type": other, "params": {"k": 1}}]}
        if r < 0.78:
            return {"type": "not", "params": {"guard": g}}
        if r < 0.86:
            return {"type": "not", "children": [g]}
        if r < 0.93:
            return {"type": "and", "children": [g, {"type": "not", "children": [
                {"type": "or", "params": {"guards": [other, {"type": "stateIn", "params": {
                    "stateId": "#" + cfg["id"]}}]}}]}]}
        return {"type": "stateIn", "params": {"stateId": "#" + cfg["id"]}}

    def walk_t(t):
        if isinstance(t, list):
            for x in t:
                walk_t(x)
        elif isinstance(t, dict):
            if "guard" in t:
                t["guard"] = guard_form(t["guard"])
            if use_internal and t.get("target") is not None and "reenter" not in t and rng.random() < 0.3:
                # the XState v4 key: ignored by the library, a temptation for the generator
                t["internal"] = rng.random() < 0.5
            acts = t.get("actions")
            if isinstance(acts, list):
                for i, a in enumerate(acts):
                    if isinstance(a, str) and rng.random() < 0.15:
                        acts[i] = {"type": a, "params": {"level": rng.randint(1, 3), "why": "because"}}

    def walk(sd, node):
        for lst in (sd.get("on") or {}).values():
            walk_t(lst)
        for k in ("always", "onDone"):
            if k in sd:
                walk_t(sd[k])
        if "after" in sd:
            for d in list(sd["after"]):
                walk_t(sd["after"][d])
                if rng.random() < 0.3:
                    sd["after"]["DELAY_%s" % d] = sd["after"].pop(d)
        inv = sd.get("invoke")
        if isinstance(inv, dict):
            for k in ("onDone", "onError"):
                if k in inv:
                    walk_t(inv[k])
        if rng.random() < 0.2:
            sd["tags"] = ["t%d" % rng.randint(0, 3)]
        if rng.random() < 0.2:
            sd["meta"] = {"label": node.key, "n": rng.randint(0, 9), "nested": {"a": [1, 2]}}
        if rng.random() < 0.15:
            sd["description"] = "state %s does things" % node.key
        for c in node.children:
            sub = sd.get("states", {}).get(c.key)
            if sub is not None:
                walk(sub, c)
    walk(cfg, case.tree.root)
    return cfg


HOSTILE = ['say "hi"', "it's", 'tri"""ple', "back\\slash", "new\nline", "tab\there", "{brace}", "${x}", "%s%d",
           "class", "def", "None", "import", "1st", "with space", "dash-ed", "ünï", "日本", "a;b", "x=1",
           "__import__('os').system('touch CANARY_EXEC')", "\"); open('CANARY_EXEC','w').close() #",
           "'''; open('CANARY_EXEC','w').close(); '''", "f\"{open('CANARY_EXEC','w')}\"", "\\\"", "a\\",
           "lambda: 0", "print", "self", "logger", "State", "build", "enterGreen", "enter_green", "enter__green",
           # line separators other than \n that str.splitlines() honours
           "nel\x85x", "ls\u2028x", "ps\u2029x", "ff\x0cx", "vt\x0bx", "fs\x1cx", "import os\u2028import sys"]
# payloads shaped for the places a name is echoed as prose: docstrings (either quote, the statement at
# module, function or method depth) and comments
_PAY = "open('CANARY_EXEC','w')"        # no '.', so it survives where ids are de-dotted
_DQ, _SQ = '"' * 3, "'" * 3
HOSTILE_PROSE = (["d%s; %s; %s" % (q, _PAY, q) for q in (_DQ, _SQ)]
                 + ["c\n" + _PAY, "c\r" + _PAY, "c\n" + _PAY + " #", 'q"\n' + _PAY + '\n"']
                 + ["d%s\n%s%s\n%s%s" % (q, " " * k, _PAY, " " * k, q) for q in (_DQ, _SQ) for k in (0, 4, 8)]
                 + ["c\n%s%s" % (" " * k, _PAY) for k in (4, 8)]
                 # a line of its own for tools that split at every Unicode line boundary
                 + ["x%simport logging; %s%sy" % (sep, _PAY, sep)
                    for sep in ("\u2028", "\u2029", "\x85", "\x0c", "\x0b", "\x1c", "\x1d", "\x1e", "\n", "\r")]
                 + ["x%sfrom typing import Any; %s%sy" % (sep, _PAY, sep) for sep in ("\u2028", "\x85")])
HOSTILE += HOSTILE_PROSE


def hostile_config(rng):
    hs = lambda: rng.choice(HOSTILE)  # noqa: E731
    used = set()

    def key():
        for _ in range(30):
            k = hs().replace(".", "_").lstrip("#") or "k"
            if k not in used:
                used.add(k)
                return k
        k = "k%d" % len(used)
        used.add(k)
        return k
    a, b, c = key(), key(), key()
    mid = rng.choice(["m", hs().replace(".", "_").lstrip("#") or "m"])
    cfg = {"id": mid, "initial": a, "context": {hs(): hs(), "n": 1},
           "states": {
               a: {"entry": [hs(), {"type": hs(), "params": {hs(): hs()}}], "exit": [hs()],
                   "on": {hs(): {"target": b, "actions": [hs()], "guard": hs()},
                          "GO": [{"target": c, "guard": {"type": "and", "params": {"guards": [hs(), hs()]}}},
                                 {"target": b}]},
                   "meta": {hs(): hs()}, "tags": [hs()], "description": hs()},
               b: {"invoke": {"src": hs(), "id": hs(), "input": {hs(): hs()}, "onDone": {"target": c, "actions": [hs()]}},
                   "after": {"100000": a, hs().replace(".", "_"): {"target": c}},
                   "on": {"BACK": a}},
               c: {"type": "final"}}}
    return cfg


EVENT_POOL = ["INCREMENT", "DECREMENT", "RESET", "DOUBLE", "HALVE", "NEGATE", "SQUARE", "CLAMP", "tick", "poke",
              "user.click", "user.key", "sync", "flush"]


def counter_config(rng):
    """Machines a demo run cannot walk: the initial state handles its events without leaving."""
    evs = rng.sample(EVENT_POOL, rng.randint(2, 9))
    on = {e: {"actions": ["on%s" % "".join(w.capitalize() for w in re.split(r"[._]", e.lower()))]} for e in evs}
    if rng.random() < 0.3:
        on[evs[0]]["guard"] = "isOk"
    shape = rng.choice(["flat", "flat", "nested", "parallel"])
    if shape == "flat":
        states = {"active": {"on": on}}
        if rng.random() < 0.4:
            states["idle"] = {"on": {evs[0]: "active"}}      # declared, never reached
        return {"id": "counter", "initial": "active", "context": {"count": 0}, "states": states}
    if shape == "nested":
        return {"id": "counter", "initial": "outer", "context": {"count": 0},
                "states": {"outer": {"initial": "inner", "states": {"inner": {"on": on}}}}}
    half = len(evs) // 2
    return {"id": "counter", "type": "parallel", "context": {"count": 0},
            "states": {"ra": {"initial": "x", "states": {"x": {"on": {e: on[e] for e in evs[:half]}}}},
                       "rb": {"initial": "y", "states": {"y": {"on": {e: on[e] for e in evs[half:]}}}}}}


def hostile_id_config(spec, idx, rng, ordinal=None):
    """An ordinary machine (names discovery can bind) whose ID alone is hostile."""
    for k in range(20):
        cfg = gen_config(spec, idx + 1000 * k)
        if "maxIterations" not in cfg:
            break
    cfg = copy.deepcopy(cfg)
    if ordinal is not None and ordinal < len(HOSTILE_PROSE):
        raw = HOSTILE_PROSE[ordinal]                # every prose-shaped payload is used at least once,
        # on a machine every template can write
        cfg = {"id": "m", "initial": "idle", "context": {"n": 0},
               "states": {"idle": {"on": {"GO": {"target": "busy", "actions": ["startWork"]}}},
                          "busy": {"entry": ["logEntry"], "on": {"BACK": {"target": "idle", "guard": "isDone"}}}}}
    else:
        raw = rng.choice(HOSTILE_PROSE if rng.random() < 0.7 else HOSTILE)
    cfg["id"] = (raw.replace(".", "_").lstrip("#")) or "m"
    return cfg


def gen_config(spec, idx):
    rng = rng_for(spec["seed"], ID, spec["chunk"], idx, "cfg")
    P = gen.profile("full", p_after=0.25, p_invoke=0.25, p_history=0.3, p_hist_target=0.25, p_custom_id=0.25,
                    max_states=12, p_parallel=0.3, p_guard=0.5, p_root_on=0.5, p_effects=0.4,
                    p_forbidden=0.02)
    case = gen.gen_case(rng_for(spec["seed"], ID, spec["chunk"], idx, "case"), P)
    cfg = json_plan(copy.deepcopy(case.plan), rng)
    cfg = decorate(cfg, case, rng)
    if rng.random() < 0.75:
        # the generator documents that it refuses these keys; most inputs avoid them so that the
        # write path (the one with something to compare) is reached, the rest exercise the refusal
        cfg.pop("maxIterations", None)
        _simplify(cfg, case, rng)
        style = rng.choice(["dotted", "snake", "camel", "camel"])
        if style != "dotted":
            # names auto-discovery can bind, so that the *-json templates reach their write path
            cfg = _rename(cfg, style)
    return cfg


def _rename(v, style):
    def nm(s_):
        if isinstance(s_, str) and re.match(r"^(en|ex|tr|fx)\.", s_):
            parts = s_.replace(".", "_").split("_")
            if style == "snake":
                return "_".join(parts)
            # digits spelt as letters: camelCase -> snake_case -> camelCase is then the identity
            parts = [re.sub(r"\d", lambda m_: "abcdefghij"[int(m_.group(0))], p) for p in parts]
            return parts[0] + "".join(p.title() for p in parts[1:])
        return s_
    if isinstance(v, dict):
        return {k: (nm(x) if k == "type" else _rename(x, style)) for k, x in v.items()}
    if isinstance(v, list):
        return [nm(x) if isinstance(x, str) else _rename(x, style) for x in v]
    return v


def _simplify(cfg, case, rng):
    def fix_t(t):
        if isinstance(t, list):
            for x in t:
                fix_t(x)
        elif isinstance(t, dict) and "target" in t:
            mk = next((a if isinstance(a, str) else a.get("type") for a in t.get("actions", [])
                       if (a if isinstance(a, str) else a.get("type", "")).startswith("tr.")), None)
            tr = case.by_marker.get(mk)
            if tr is not None and tr.target is not None:
                t["target"] = "#" + tr.target.id

    def walk(sd, node):
        sd.pop("output", None)
        if node.parent is not None:
            sd.pop("id", None)
        if node.kind == "history":
            sd.pop("target", None)
        for lst in (sd.get("on") or {}).values():
            fix_t(lst)
        for k in ("always", "onDone"):
            if k in sd:
                fix_t(sd[k])
        for lst in (sd.get("after") or {}).values():
            fix_t(lst)
        inv = sd.get("invoke")
        if isinstance(inv, dict):
            for k in ("onDone", "onError"):
                if k in inv:
                    fix_t(inv[k])
        for c in node.children:
            sub = sd.get("states", {}).get(c.key)
            if sub is not None:
                walk(sub, c)
    walk(cfg, case.tree.root)


# ---------------------------------------------------------------------------
# one judged run
# ---------------------------------------------------------------------------
def _strip_doc(fp):
    # 'description' is documentation; the statement's list of what must be equal does not name it
    fp.pop("description", None)
    for c in fp.get("states", []):
        _strip_doc(c)
    return fp


def diff_kind(d):
    p = re.sub(r"\[\d+\]", "", d.split(":")[0])
    parts = [x for x in p.split("/") if x and not re.fullmatch(r"s\d+|states|[A-D]|GO|BACK", x)]
    keep = [x for x in parts if x in ("guard", "params", "children", "actions", "type", "target", "invoke", "input",
                                      "id", "src", "on_done", "on_error", "after", "meta", "tags", "description",
                                      "context", "initial", "history", "hist_default", "custom_id", "output", "entry",
                                      "exit", "on", "reenter", "forbidden", "max_iterations", "machine_output")]
    return "/".join(keep[-3:]) or "structure"


def smuggled(src):
    """The hostile strings' payload calls, found as CODE (Call nodes) in a generated file."""
    for node in ast.walk(ast.parse(src)):
        if not isinstance(node, ast.Call):
            continue
        fn = node.func
        name = fn.id if isinstance(fn, ast.Name) else (fn.attr if isinstance(fn, ast.Attribute) else None)
        if name not in ("open", "__import__", "system"):
            continue
        for a in node.args:
            if isinstance(a, ast.Constant) and isinstance(a.value, str) and (
                    "CANARY_EXEC" in a.value or a.value == "os"):
                return "%s(%r) at line %d" % (name, a.value, node.lineno)
    return None


def run_runner(out, files, cwd):
    """Runs the generated runner the way its user does; -> 'ran' | 'timeout' | None (no runner)."""
    import subprocess
    runner = next((f for f in files if f.endswith("_runner.py")), None) or (files[0] if len(files) == 1 else None)
    if runner is None:
        return None
    env = dict(os.environ, PYTHONPATH=observe.REPO_SRC + os.pathsep + out, PYTHONDONTWRITEBYTECODE="1")
    try:
        subprocess.run([sys.executable, os.path.join(out, runner)], cwd=cwd, env=env, capture_output=True,
                       text=True, timeout=60)
    except subprocess.TimeoutExpired:
        return "timeout"
    return "ran"


# ids that are legal JSON but awkward as Python module / class / function names
ODD_IDS = ["3dPrinter", "Token", "9lives", "json", "_private", "typing", "1st", "os", "__dunder__", "tokenize",
           "UPPER", "re", "MiXed-Case", "ast", "with space", "keyword", "ünï",
           "a" * 70, "class", "import", "None", "x__y", "trailing_", "Z9", "2", "logic", "runner", "test",
           "xstate_statemachine", "main", "build", "self", "State", "日本", "a-b-c", "a.b", "black", "isort"]


def rejected_source_config(ordinal):
    """Sources create_machine() rejects: whatever the template, nothing may be written for them."""
    shapes = [
        {"id": "noStates", "context": {"n": 0}, "on": {"GO": [{"target": "#noStates", "actions": [{"type": "doIt"}]}]}},
        {"id": "badInitial", "initial": "nowhere", "states": {"a": {"on": {"GO": "b"}}, "b": {}}},
        {"id": "noInitial", "states": {"a": {"initial": "ghost", "states": {"x": {}, "y": {}}}}},
        {"id": "badTarget", "initial": "a", "states": {"a": {"on": {"GO": {"target": "missing", "actions": ["doIt"]}}}}},
        {"id": "dupIds", "initial": "a", "states": {"a": {"id": "same"}, "b": {"id": "same"}}},
        {"id": "statesList", "initial": "a", "states": ["a", "b"]},
    ]
    return shapes[ordinal % len(shapes)]


def odd_id_config(ordinal):
    return {"id": ODD_IDS[ordinal % len(ODD_IDS)].replace(".", "_"), "initial": "idle", "context": {"n": 0},
            "states": {"idle": {"on": {"GO": {"target": "busy", "actions": ["startWork"]}}},
                       "busy": {"entry": ["logEntry"], "on": {"BACK": {"target": "idle", "guard": "isDone"}}}}}


def judge(res, cfg, template, am, fc, family, case_ref, real_black=False, force_process=False,
          force_in_cwd=False):
    tmp = tempfile.mkdtemp(prefix="xsv17_")
    witness = {"family": family, "template": template, "async": am, "files": fc, "config": cfg}
    key_t = template
    try:
        with open(os.path.join(tmp, "m.json"), "w", encoding="utf-8") as f:
            json.dump(cfg, f)
        fast_black(not real_black)
        # every fourth run writes next to the JSON (the CLI's default): the output directory is then
        # the working directory, where tools that look at the disk see the freshly written modules
        in_cwd = force_in_cwd or (res.evaluations % 4 == 3 and (
            FULL_PROCESS_RUNS or res.counters.get("cli.runs.output-in-working-directory", 0) < 2))
        argv = ["generate-template", "m.json", "-t", template] + ([] if in_cwd else ["-o", "out"]) + [
            "-fc", str(fc), "-am", am, "-f", "--sleep", "no"]
        proc = in_cwd or force_process
        code, text, ev = run_cli(argv, tmp, tmp, process=proc, hashseed=1)
        res.evaluations += 1
        if proc:
            res.count("cli.runs.own-process")
        res.count("cli.runs." + template)
        if in_cwd:
            res.count("cli.runs.output-in-working-directory")
        out = tmp if in_cwd else os.path.join(tmp, "out")
        files = sorted(f for f in (os.listdir(out) if os.path.isdir(out) else []) if f.endswith(".py"))
        if ev:
            res.violation("C17:cli-side-effect/%s" % ev[0][0], "the CLI run itself did: %s" % ev[:2], witness,
                          case=case_ref)
            return
        if os.path.exists(os.path.join(tmp, "CANARY_EXEC")) or os.path.exists(os.path.join(out, "CANARY_EXEC")):
            res.violation("C17:input-string-executed-as-code/cli", "a string from the JSON was executed "
                          "during generation", witness, case=case_ref)
            return
        if code != 0:
            res.count("cli.refused" if not str(code).startswith("crash") else "cli.crashed")
            if str(code).startswith("crash"):
                res.count("cli.crash." + str(code)[6:])
            if files:
                res.violation("C17:refused-but-wrote-files/%s" % key_t, "exit %s, yet %s exist" % (code, files),
                              dict(witness, output=text[-300:]), case=case_ref)
            return
        if not files:
            res.violation("C17:exit-0-but-nothing-written/%s" % key_t, text[-200:], witness, case=case_ref)
            return
        res.count("cli.wrote." + template)
        nontrivial = '"states"' in json.dumps(list(cfg.get("states", {}).values())) or '"and"' in json.dumps(cfg)
        if nontrivial:
            res.hashes.add(h([cfg, template, am, fc]))
        srcs = {}
        for f in files:
            with open(os.path.join(out, f), encoding="utf-8") as fh:
                srcs[f] = fh.read()
            try:
                ast.parse(srcs[f])
            except SyntaxError as e:
                res.violation("C17:generated-file-is-not-valid-python/%s" % key_t, "%s: %s" % (f, e),
                              witness, case=case_ref)
                return
        for f in files:
            sm = smuggled(srcs[f])
            if sm:
                res.violation("C17:input-string-is-code-in-generated-file/%s" % key_t,
                              "%s: a call carried by a JSON string is an AST node of the generated file (%s)" % (
                                  f, sm), witness, case=case_ref)
                return
        res.count("static.files-scanned-for-smuggled-code", len(files))
        # import + build under the monitor
        with armed(allow=None) as events:
            try:
                m1 = load_generated(out, files, template, cfg)
                err = None
            except Exception as e:  # noqa: BLE001
                m1, err = None, e
        ev = list(events)
        if ev:
            res.violation("C17:side-effect-on-import/%s" % ev[0][0], "importing/building did: %s" % ev[:2],
                          witness, case=case_ref)
            return
        if os.path.exists(os.path.join(tmp, "CANARY_EXEC")) or os.path.exists("CANARY_EXEC"):
            res.violation("C17:input-string-executed-as-code/import", "a string from the JSON was executed "
                          "when the generated module was imported", witness, case=case_ref)
            return
        if err is not None:
            kind = "generated-logic-misses-a-name" if isinstance(err, xs.ImplementationMissingError) \
                else "generated-module-fails-to-load"
            res.violation("C17:%s/%s/%s" % (kind, key_t, type(err).__name__), str(err)[:200], witness, case=case_ref)
            return
        res.count("loaded." + template)
        try:
            m0 = create_machine(copy.deepcopy(cfg), logic=table_logic([], {"n": 0}))
        except Exception as e:  # noqa: BLE001
            res.count("reference-rejected")
            res.violation("C17:generated-for-a-config-the-library-rejects/%s" % type(e).__name__,
                          "the CLI wrote code for a config create_machine() rejects: %s" % str(e)[:120], witness,
                          case=case_ref)
            return
        fp0, fp1 = _strip_doc(fingerprint.machine_fp(m0)), _strip_doc(fingerprint.machine_fp(m1))
        res.count("compared.fingerprints")
        d = fingerprint.diff(fp0, fp1)
        if d:
            res.violation("C17:generated-machine-differs/%s/%s" % (key_t, diff_kind(d[0])),
                          "source vs generated: %s" % d[:3], witness, case=case_ref)
            return
        evs = event_names(m0)
        rng = rng_for(h([cfg]), "trace")
        for rep in range(2):
            seq = [rng.choice(evs + ["ZZ"]) for _ in range(8)] if evs else ["ZZ"]
            t0 = trace(create_machine(copy.deepcopy(cfg), logic=table_logic([], {"n": 0})), seq)
            t1 = trace(m1 if rep == 0 else load_generated(out, files, template, cfg), seq)
            res.count("compared.traces")
            if t0 != t1:
                step = next((i for i, (x, y) in enumerate(zip(t0, t1)) if x != y), min(len(t0), len(t1)))
                res.violation("C17:generated-machine-behaves-differently/%s" % key_t,
                              "traces differ at step %d: %s vs %s" % (step, t0[step:step + 1], t1[step:step + 1]),
                              dict(witness, events=seq), case=case_ref)
                return
        # regeneration is byte-identical, --check sees no drift (every third written output)
        if family in ("hostile", "hostile-id") and res.counters.get("runner.executed", 0) < (40 if FULL_PROCESS_RUNS else 3):
            # the runner is generated code too: run it as its user would, in a scratch directory
            r = run_runner(out, files, tmp)
            if r == "ran":
                res.count("runner.executed")
                if any(os.path.exists(os.path.join(d_, "CANARY_EXEC")) for d_ in (tmp, out)):
                    res.violation("C17:input-string-executed-as-code/runner", "running the generated runner "
                                  "executed a string from the JSON", witness, case=case_ref)
                    return
            elif r == "timeout":
                res.count("runner.timeout-inconclusive")
        if not (real_black or proc or res.counters.get("compared.fingerprints", 0) % 3 == 1):
            return
        # (a fresh process has fresh string hashes: the bytes may not depend on them)
        code2, text2, _ = run_cli(argv, tmp, tmp, process=proc, hashseed=2)
        again = {}
        for f in files:
            p = os.path.join(out, f)
            if os.path.exists(p):
                with open(p, encoding="utf-8") as fh:
                    again[f] = fh.read()
        res.count("regenerated")
        if code2 != 0 or again != srcs:
            res.violation("C17:regeneration-not-byte-identical/%s%s" % (key_t, "/fresh-process" if proc else ""),
                          "second run: exit %s, files differing: %s" % (
                              code2, [f for f in files if again.get(f) != srcs[f]]), witness, case=case_ref)
            return
        code3, text3, _ = run_cli(argv + ["--check"], tmp, tmp, process=proc, hashseed=3)
        res.count("check-mode-runs")
        if code3 != 0:
            res.violation("C17:check-reports-drift-on-fresh-output/%s" % key_t, text3[-200:], witness, case=case_ref)
            return
        if real_black:
            # the in-process formatter stand-in must produce the bytes the real subprocess produced
            fast_black(True)
            run_cli(argv, tmp, tmp)
            for f in files:
                with open(os.path.join(out, f), encoding="utf-8") as fh:
                    if fh.read() != srcs[f]:
                        res.inconclusive.append("formatter stand-in differs from `python -m black` on %s" % f)
            res.count("formatter-stand-in-checked")
        if res.counters.get("cli.wrote." + template, 0) == 1:
            res.sample({"template": template, "family": family, "files": files,
                        "first_lines": srcs[files[0]].splitlines()[:3], "audit_events": 0})
    finally:
        fast_black(False)
        shutil.rmtree(tmp, ignore_errors=True)


FULL_PROCESS_RUNS = False


def run_chunk(spec):
    global FULL_PROCESS_RUNS
    FULL_PROCESS_RUNS = spec["tier"] == "thorough"
    observe.quiet_logs()
    install_hook()
    _init_builtins()
    res = Result()
    tier, ci = spec["tier"], spec["chunk"]
    wd = Watchdog(res, 400.0)
    rng = rng_for(spec["seed"], ID, ci, "plan")
    jobs = []
    n_gen = 4 if tier == "quick" else 30
    n_host = 2 if tier == "quick" else 10
    only = spec.get("only_case")
    for j in range(n_gen):
        idx = ci * 100000 + j
        jobs.append(("generated", idx, None))
    for j in range(n_host):
        idx = ci * 100000 + 50000 + j
        jobs.append(("hostile", idx, None))
    for j in range(2 if tier == "quick" else 14):
        jobs.append(("hostile-id", ci * 100000 + 60000 + j, None))
    for j in range(1 if tier == "quick" else 3):
        jobs.append(("counter", ci * 100000 + 70000 + j, None))
    for j in range(1 if tier == "quick" else 3):
        jobs.append(("odd-id", ci * 100000 + 80000 + j, None))
    for j in range(1 if tier == "quick" else 2):
        jobs.append(("rejected-source", ci * 100000 + 85000 + j, None))
    stately = sorted(os.listdir(STATELY)) if os.path.isdir(STATELY) else []
    mine = [f for i, f in enumerate(stately) if i % NCHUNKS == ci]
    if tier == "quick":
        mine = mine[:1]
    for f in mine:
        jobs.append(("stately", 90000 + stately.index(f), f))
    k = 0
    for family, idx, fname in jobs:
        if only and only.get("idx") != idx:
            continue
        if family == "generated":
            cfg = gen_config(spec, idx)
        elif family == "hostile":
            cfg = hostile_config(rng_for(spec["seed"], ID, ci, idx, "host"))
        elif family == "hostile-id":
            j_ = idx - (ci * 100000 + 60000)
            cfg = hostile_id_config(spec, idx, rng_for(spec["seed"], ID, ci, idx, "hostid"),
                                    ordinal=(j_ * NCHUNKS + ci) if tier == "quick" else (j_ + 2 * ci))
        elif family == "counter":
            cfg = counter_config(rng_for(spec["seed"], ID, ci, idx, "counter"))
        elif family == "odd-id":
            j_ = idx - (ci * 100000 + 80000)
            cfg = odd_id_config(j_ * NCHUNKS + ci)
        elif family == "rejected-source":
            j_ = idx - (ci * 100000 + 85000)
            cfg = rejected_source_config(j_ * NCHUNKS + ci)
        else:
            try:
                with open(os.path.join(STATELY, fname), encoding="utf-8") as fh:
                    cfg = json.load(fh)
            except Exception:  # noqa: BLE001
                continue
            res.count("stately.exports")
        combos = [(t, am, fc) for t in TEMPLATES for am in ("no", "yes") for fc in (2, 1)]
        if True:      # (every template once + three more mode/file combinations; all 20 took too long)
            r2 = rng_for(spec["seed"], ID, ci, idx, "combo")
            r2.shuffle(combos)
            # every template once, modes/files at random
            seen, pick = set(), []
            for c in combos:
                if c[0] not in seen:
                    seen.add(c[0])
                    pick.append(c)
            combos = pick if tier == "quick" else pick + combos[:3]
            if family == "counter" and tier == "quick":
                combos = combos[:2]
            if family == "odd-id":
                # written next to the JSON (the CLI's default): once as two files (the runner imports
                # the logic), once as one file named after the machine alone
                combos = [(t_, am_, 2 - k_) for k_, (t_, am_, _fc) in enumerate(combos[:2])]
            if family == "rejected-source":
                combos = [c_ for c_ in combos if c_[0] in ("class-json", "function-json")][:2] + combos[:1]
        for (t, am, fc) in combos:
            k += 1
            wd.arm("%s idx=%s %s" % (family, idx, t))
            judge(res, cfg, t, am, fc, family, {"idx": idx, "family": family, "file": fname},
                  real_black=(k % 12 == 0), force_process=(family == "counter"),
                  force_in_cwd=(family == "odd-id"))
            res.count("family." + family)
    wd.disarm()
    return res.to_json()


def quota(counters, tier):
    out = []
    need = ["compared.fingerprints", "compared.traces", "regenerated", "check-mode-runs", "cli.refused",
            "stately.exports", "formatter-stand-in-checked", "cli.runs.output-in-working-directory",
            "cli.runs.own-process", "family.counter", "family.hostile-id", "family.odd-id", "family.rejected-source", "runner.executed",
            "static.files-scanned-for-smuggled-code"]
    need += ["cli.wrote." + t for t in TEMPLATES]
    need += ["loaded." + t for t in TEMPLATES]
    for k in need:
        if counters.get(k, 0) == 0:
            out.append("monitor-never-reached:" + k)
    return out
