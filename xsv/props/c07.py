"""C07 — failure containment and transition atomicity (fault enumeration).

For one generated run every call of user-supplied code is a fault position: the
fault-free run enumerates them, then the run is repeated once per position with
that call raising, and compared with its fault-free twin.
"""
from __future__ import annotations

import asyncio
import copy
import logging
import time

from .. import drive, gen, observe, oracle
from ..observe import (Event, Interpreter, LogCapture, MachineLogic, PluginBase, Rec,
                       SyncInterpreter, config_of, create_machine, drain, run_virtual, xs)
from .common import Result, Watchdog, h, mk_chunks, plan_summary, rng_for

ID = "C07"
LEVEL = "fault_enumeration"
TECHNIQUE = ("runtime monitoring with fault enumeration: the fault-free run enumerates every call "
             "site of user code (actions, built-in callbacks, plugin hooks, subscribers, emit "
             "listeners); each single fault position is injected in a re-run that is compared "
             "step-wise with its fault-free twin; aborting errors are injected at every list "
             "position and checked for rollback, re-arming (timer census, service restarts), "
             "reporting and responsiveness")
LEVEL_TEXT = ("all single faults of every generated run are enumerated (plus random pairs); held "
              "on every position enumerated")
LEVEL_NOTE = ("trusted: Recorder, fault plan counters, twin comparison; class-A action faults are "
              "injected only where the rest of the list is effect-free markers (skipped effects "
              "legitimately change later behaviour) and the number skipped is reported")
RULE = ("profiles effects/full with neutral emit/log effects x sync+async; fault kinds: action, "
        "cb.log, hook.<name>, sub, listener, and abort kinds missing-action / missing-service / "
        "bad-target / async-action-under-sync at entry, exit and transition lists; one evaluation "
        "= one injected fault position; all are non-trivial; distinct = hash(plan, events, fault)")
ASSUMPTIONS = ["CancelledError is never injected",
               "after an abort the event's effect is legitimately lost, so later steps are "
               "checked for legality and responsiveness, not against the fault-free twin"]

TOTAL = {"quick": 96, "thorough": 800}
NEV = {"quick": 8, "thorough": 12}
LIBERR = xs.XStateMachineError


def chunks(tier, seed):
    return mk_chunks(ID, tier, seed, TOTAL[tier], 16, timeout=900 if tier == "quick" else 6000)


class Injected(RuntimeError):
    pass


# A user action may fail with ANY exception class - also with one of the library's own (it drove a
# second interpreter, or re-raised what a helper gave it).  It is still a failing user action.
class InjectedMissing(Injected, xs.ImplementationMissingError):
    pass


class InjectedNotSupported(Injected, xs.NotSupportedError):
    pass


class InjectedConfig(Injected, xs.InvalidConfigError):
    pass


def _exc_for(name):
    return (Injected, InjectedMissing, Injected, InjectedNotSupported, InjectedConfig)[len(name) % 5]


class Faults:
    def __init__(self):
        self.counts = {}
        self.target = set()
        self.fired = []

    def reset(self, target=()):
        self.counts = {}
        self.target = set(target)
        self.fired = []

    def hit(self, kind):
        n = self.counts.get(kind, 0)
        self.counts[kind] = n + 1
        if (kind, n) in self.target:
            self.fired.append((kind, n))
            return True
        return False


HOOKS = ["on_interpreter_start", "on_interpreter_stop", "on_event_received", "on_transition",
         "on_action_execute", "on_action_error", "on_guard_evaluated", "on_service_start",
         "on_service_done", "on_service_error", "on_done", "on_error"]


class FaultyPlugin(PluginBase):
    def __init__(self, F):
        self.F = F


def _mk_hook(name):
    def hook(self, *a, **k):
        if self.F.hit("hook." + name):
            raise Injected("hook " + name)
    hook.__name__ = name
    return hook


for _n in HOOKS:
    setattr(FaultyPlugin, _n, _mk_hook(_n))


def safe_positions(plan):
    """marker name -> True if every later entry of its own action list is a plain marker."""
    safe = {}

    def walk_list(L):
        L = L if isinstance(L, list) else [L]
        for i, a in enumerate(L):
            if isinstance(a, str):
                safe[a] = all(isinstance(x, str) for x in L[i + 1:])
            elif isinstance(a, dict) and a.get("$") == "logcb":
                safe["cb.log:" + a.get("tag", "")] = all(isinstance(x, str) for x in L[i + 1:])
            elif isinstance(a, dict) and "$" in a:
                for b in a.get("branches", []):
                    walk_list(b.get("actions", []))
                if "actions" in a:
                    walk_list(a["actions"])

    def walk_trans(t):
        for x in (t if isinstance(t, list) else [t]):
            if isinstance(x, dict):
                walk_list(x.get("actions", []))

    def walk_state(s):
        walk_list(s.get("entry", []))
        walk_list(s.get("exit", []))
        for v in (s.get("on") or {}).values():
            if v is not None:
                walk_trans(v)
        walk_trans(s.get("always", []))
        walk_trans(s.get("onDone", []))
        for v in (s.get("after") or {}).values():
            walk_trans(v)
        inv = s.get("invoke")
        if inv:
            walk_trans(inv.get("onDone", []))
            walk_trans(inv.get("onError", []))
        for c in (s.get("states") or {}).values():
            walk_state(c)
    walk_state(plan)
    return safe


def list_len_after(plan, name):
    """number of entries after `name` in its own list (they are skipped by a fault in it)."""
    out = {}

    def walk_list(L):
        L = L if isinstance(L, list) else [L]
        for i, a in enumerate(L):
            if isinstance(a, str):
                out[a] = len(L) - 1 - i
            elif isinstance(a, dict) and "$" in a:
                for b in a.get("branches", []):
                    walk_list(b.get("actions", []))
                if "actions" in a:
                    walk_list(a["actions"])

    def walk_trans(t):
        for x in (t if isinstance(t, list) else [t]):
            if isinstance(x, dict):
                walk_list(x.get("actions", []))

    def walk_state(s):
        walk_list(s.get("entry", []))
        walk_list(s.get("exit", []))
        for v in (s.get("on") or {}).values():
            if v is not None:
                walk_trans(v)
        walk_trans(s.get("always", []))
        walk_trans(s.get("onDone", []))
        for v in (s.get("after") or {}).values():
            walk_trans(v)
        for c in (s.get("states") or {}).values():
            walk_state(c)
    walk_state(plan)
    return out.get(name, 0)


def run_once(engine, case, events, gtables, F, target, drop=None, machine_patch=None,
             async_names=None):
    """One run with fault plan `target`; returns per-step trace + extras."""
    F.reset(target)
    rec = Rec()
    trace = []
    extras = {"aerr": [], "exc": [], "errors": 0}
    names = gen.action_names(case.plan)

    def mk_action(name):
        def _a(interp, ctx, event, action_def, _n=name):
            rec.log.append(("act", _n, event, config_of(interp), 0))
            if F.hit("action"):
                raise _exc_for(_n)("action " + _n)
        return _a
    def mk_async_action(name):
        async def _a(interp, ctx, event, action_def, _n=name):
            rec.log.append(("act", _n, event, config_of(interp), 0))
            if F.hit("action"):
                raise _exc_for(_n)("action " + _n)
        return _a
    actions = {n: mk_action(n) for n in names if not (drop and n in drop)}
    if engine == "async":
        # every third user action is a coroutine function: its body - and its failure - happen at
        # the await, not at the call
        for n in sorted(actions)[::3]:
            actions[n] = mk_async_action(n)
    for n in (async_names or []):
        async def _coro(interp, ctx, event, action_def):
            return None
        actions[n] = _coro

    def cb_hook(kind):
        if F.hit("cb." + kind):
            raise Injected("callback " + kind)
    gen.CALLBACK_HOOK["fn"] = cb_hook
    gt = dict(gtables[0])

    def mk_guard(name):
        def _g(ctx, event, _n=name):
            v = gt.get(_n, False)
            if v == "raise":
                raise observe.GuardRaised(_n)
            return bool(v)
        return _g
    guards = {a: mk_guard(a) for a in case.atoms}
    guards["hasBudget"] = lambda ctx, event: ctx.get("b", 0) > 0
    services = observe.build_services(case, rec) if case.services else {}
    if machine_patch and machine_patch.get("drop_service"):
        services.pop(machine_patch["drop_service"], None)
    cfg = gen.materialize(case.plan)
    if machine_patch and machine_patch.get("cfg"):
        machine_patch["cfg"](cfg)
    machine = create_machine(cfg, logic=MachineLogic(actions=actions, guards=guards,
                                                     services=services))

    def sub(interp):
        rec.log.append(("sub", config_of(interp), interp.status))

    def bad_sub(interp):
        if F.hit("sub"):
            raise Injected("subscriber")

    def bad_listener(ev):
        rec.log.append(("emit", ev.type))
        if F.hit("listener"):
            raise Injected("listener")

    def second_listener(ev):
        rec.log.append(("emit2", ev.type))

    def wire(it):
        it.use(FaultyPlugin(F))
        it.use(rec)
        it.subscribe(bad_sub)
        it.subscribe(sub)
        it.on("*", bad_listener)
        it.on("*", second_listener)

    def snap(it, phase, i, mark, exc):
        acts = [r[1] for r in rec.log[mark:] if r[0] == "act"]
        emits = [r for r in rec.log[mark:] if r[0] in ("emit", "emit2")]
        trace.append({"cfg": config_of(it), "ctx": copy.deepcopy(it.context), "status": it.status,
                      "acts": acts, "emits": len(emits), "exc": type(exc).__name__ if exc else None,
                      "timers": observe.live_timers(it),
                      "log": list(rec.log[mark:]) if target else None})
    with LogCapture(logging.ERROR) as cap:
        try:
            if engine == "sync":
                it = SyncInterpreter(machine)
                wire(it)
                exc = None
                try:
                    it.start()
                except Exception as e:  # noqa: BLE001
                    exc = e
                snap(it, "start", -1, 0, exc)
                if exc is None:
                    for i, ev in enumerate(events):
                        gt.clear()
                        gt.update(gtables[i + 1])
                        mark = len(rec.log)
                        exc = None
                        e0 = cap.count(logging.ERROR)
                        try:
                            it.send(drive._mk_event(ev))
                        except Exception as e:  # noqa: BLE001
                            exc = e
                            extras["exc"].append((i, e))
                        snap(it, "send", i, mark, exc)
                        trace[-1]["errors"] = cap.count(logging.ERROR) - e0
                it.stop()
            else:
                async def body():
                    it = Interpreter(machine)
                    wire(it)
                    exc = None
                    try:
                        await it.start()
                        await drain(it)
                    except Exception as e:  # noqa: BLE001
                        exc = e
                    snap(it, "start", -1, 0, exc)
                    if exc is None:
                        for i, ev in enumerate(events):
                            gt.clear()
                            gt.update(gtables[i + 1])
                            mark = len(rec.log)
                            e0 = cap.count(logging.ERROR)
                            exc = None
                            try:
                                await it.send(drive._mk_event(ev))
                                await drain(it)
                            except Exception as e:  # noqa: BLE001
                                exc = e
                            snap(it, "send", i, mark, exc)
                            trace[-1]["errors"] = cap.count(logging.ERROR) - e0
                    await it.stop()
                run_virtual(body)
        finally:
            gen.CALLBACK_HOOK["fn"] = None
    extras["aerr"] = [r for r in rec.log if r[0] == "aerr"]
    extras["counts"] = dict(F.counts)
    extras["rec"] = rec
    extras["fired"] = list(F.fired)
    return trace, extras


def first_diff(base, faulty, skip_acts=None):
    for i, (a, b) in enumerate(zip(base, faulty)):
        for f in ("cfg", "ctx", "status", "exc"):
            if a[f] != b[f]:
                return f, i
        if skip_acts is None and a["acts"] != b["acts"]:
            return "actions", i
        if a["emits"] != b["emits"] and skip_acts is None:
            return "emit-deliveries", i
    if len(base) != len(faulty):
        return "length", min(len(base), len(faulty))
    return None


FIELD = {"cfg": "configuration", "ctx": "context", "status": "status", "exc": "exception"}


def enum_case(res: Result, spec, idx):
    pname = ("effects", "full", "core")[idx % 3]
    # every fourth machine can complete (top-level final state -> optional on_done hook) and
    # invokes services some of which fail unhandled (-> on_service_* hooks, optional on_error hook)
    ends = idx % 2 == 1
    P = gen.profile(pname, p_neutral_fx=0.5, p_effects=0.5, p_after=0.06, maxit=3000,
                    p_root_final=0.35 if ends else 0.0, p_invoke=0.25 if ends else 0.0,
                    p_invoke_fail=0.4, p_final_trans=0.3 if ends else 0.0)
    case = gen.gen_case(rng_for(spec["seed"], ID, spec["chunk"], idx, "case"), P)
    nev = NEV[spec["tier"]]
    grng = rng_for(spec["seed"], ID, spec["chunk"], idx, "gt")
    gtables = [drive.rand_gtable(grng, case) for _ in range(nev + 1)]
    erng = rng_for(spec["seed"], ID, spec["chunk"], idx, "events")
    # event sequence from an online fault-free sync run
    evs = []

    def on_step(run, st):
        return False
    run = drive.run_sync(case, nev, erng, on_step, gtables=gtables)
    events = run["events"]
    safe = safe_positions(case.plan)
    F = Faults()
    frng = rng_for(spec["seed"], ID, spec["chunk"], idx, "faults")
    for engine in ("sync", "async"):
        if spec.get("only_engine") and spec["only_engine"] != engine:
            continue
        base, bx = run_once(engine, case, events, gtables, F, ())
        if any(t["exc"] for t in base):
            res.count("baseline-raised(skipped)")
            continue
        base2, _ = run_once(engine, case, events, gtables, F, ())
        if first_diff(base, base2) is not None:
            res.count("self-nondeterministic.attributed-to-C16")
            continue
        counts = bx["counts"]
        act_names = [r[1] for r in bx["rec"].log if r[0] == "act"]
        positions = []
        for k in range(counts.get("action", 0)):
            if safe.get(act_names[k], False):
                positions.append(("action", k))
            else:
                res.count("positions.action.skipped-unsafe")
        for kind, n in counts.items():
            if kind.startswith("cb."):
                if safe.get(kind, False):
                    positions += [(kind, k) for k in range(n)]
                else:
                    res.count("positions.callback.skipped-unsafe", n)
            elif kind != "action":
                positions += [(kind, k) for k in range(n)]
        cap_n = 60 if spec["tier"] == "quick" else 150
        if len(positions) > cap_n:
            positions = frng.sample(positions, cap_n)
            res.count("positions.sampled-cases")
        else:
            res.count("positions.exhaustive-cases")
        targets = [(p,) for p in positions]
        observers = [p for p in positions if p[0].startswith(("hook.", "sub", "listener"))]
        for _ in range(min(6, len(observers) // 3)):
            targets.append(tuple(frng.sample(observers, 2)))   # pairs of pure observers
        t_budget = time.time() + (20.0 if spec["tier"] == "quick" else 45.0)
        for tgt in targets:
            if time.time() > t_budget:
                # a machine with many timers and a long action list: its remaining fault points are
                # left out (counted), the ones judged so far stand
                res.count("positions.case-time-budget-reached")
                break
            faulty, fx = run_once(engine, case, events, gtables, F, tgt)
            kind = tgt[0][0].split(".")[0] if len(tgt) == 1 else "pair"
            res.evaluations += 1
            res.count("faults." + tgt[0][0].replace("hook.", "hook:").split(":fx")[0].split(":")[0 if tgt[0][0].startswith("cb.") else slice(None)] if False else (
                "faults.pair" if len(tgt) > 1 else "faults." + (
                    "cb.log" if tgt[0][0].startswith("cb.log") else tgt[0][0].replace("hook.", "hook:"))))
            res.hashes.add(h([idx, engine, tgt]))
            if not fx["fired"]:
                res.count("faults.position-not-reached-again")
                continue
            wit = {"engine": engine, "fault": tgt, "events": events, "profile": pname,
                   "plan": case.plan}
            key_site = tgt[0][0] if len(tgt) == 1 else "pair"
            if len(tgt) == 1 and tgt[0][0] == "action":
                k = tgt[0][1]
                name = act_names[k]
                d = first_diff(base, faulty, skip_acts=True)
                if d is not None:
                    res.violation("C07:action-fault-changed-%s/%s" % (FIELD.get(d[0], d[0]), engine),
                                  "an exception in action %s changed the %s at step %d" % (
                                      name, FIELD.get(d[0], d[0]), d[1]), wit, case={"idx": idx})
                    continue
                # action log: fault-free minus the rest of that list
                r = list_len_after(case.plan, name)
                want = act_names[:k + 1] + act_names[k + 1 + r:]
                got = [r_[1] for r_ in fx["rec"].log if r_[0] == "act"]
                if got != want:
                    res.violation("C07:action-fault-skipped-wrong-actions/%s" % engine,
                                  "after a fault in %s the executed actions differ from "
                                  "'fault-free minus the %d later entries of that list'" % (name, r),
                                  wit, case={"idx": idx})
                    continue
                ae = fx["aerr"]
                if len(ae) != 1 or getattr(ae[0][1], "type", None) != name \
                        or not isinstance(ae[0][2], Injected):
                    res.violation("C07:on_action_error-not-notified-once/%s" % engine,
                                  "on_action_error calls for a fault in %s: %r" % (
                                      name, [(getattr(x[1], 'type', None), type(x[2]).__name__) for x in ae]),
                                  wit, case={"idx": idx})
            elif len(tgt) == 1 and tgt[0][0].startswith("cb."):
                d = first_diff(base, faulty, skip_acts=True)
                if d is not None:
                    res.violation("C07:builtin-callback-fault-changed-%s/%s" % (FIELD.get(d[0], d[0]), engine),
                                  "an exception in a %s callback changed the %s at step %d" % (
                                      tgt[0][0].split(":")[0], FIELD.get(d[0], d[0]), d[1]), wit, case={"idx": idx})
                    continue
                if len(fx["aerr"]) != 1:
                    res.violation("C07:on_action_error-not-notified-for-builtin-callback/%s" % engine,
                                  "on_action_error ran %d times for a failing %s callback" % (
                                      len(fx["aerr"]), tgt[0][0].split(":")[0]), wit, case={"idx": idx})
            else:
                d = first_diff(base, faulty)
                if d is not None:
                    res.violation("C07:observer-fault-changed-%s/%s/%s" % (
                        FIELD.get(d[0], d[0]), key_site.split(".")[0] + ("." + key_site.split(".")[1]
                                                                          if "." in key_site else ""), engine),
                        "an exception in %s changed the %s at step %d" % (
                            key_site, FIELD.get(d[0], d[0]), d[1]), wit, case={"idx": idx})
                    continue
                if fx["aerr"] and not bx["aerr"]:
                    res.violation("C07:observer-fault-reported-as-action-error/%s/%s" % (
                        key_site.split(".")[0], engine),
                        "a failing %s made on_action_error fire" % key_site, wit, case={"idx": idx})
        if idx % 40 == 0 and engine == "sync":
            res.sample({"profile": pname, "events": events[:5], "sites": counts,
                        "positions_enumerated": len(positions), "machine": plan_summary(case)})
    abort_case(res, spec, idx, case, events, gtables)


# ---------------------------------------------------------------------------
# aborting errors
# ---------------------------------------------------------------------------
def abort_case(res: Result, spec, idx, case, events, gtables):
    if case.invokes:
        # a re-armed service that completes at once re-triggers the transition that failed, for
        # ever (that is what "re-armed" means); such a run never settles, so a snapshot of it
        # would be taken mid-transition.  Aborts are judged on machines without invocations; the
        # re-entry template covers services.
        res.count("aborts.skipped-machine-with-services")
        return
    frng = rng_for(spec["seed"], ID, spec["chunk"], idx, "abort")
    names = [n for n in gen.action_names(case.plan)]
    if not names:
        return
    F = Faults()
    kinds = []
    for n in frng.sample(names, min(len(names), 5)):
        where = {"en": "entry", "ex": "exit", "tr": "transition", "fx": "nested"}[n[:2]]
        kinds.append(("missing-action@" + where, {"drop": [n]}))
        kinds.append(("async-action-under-sync@" + where, {"async_names": [n]}))
    on_trans = [t for t in case.trans if t.kind == "on" and t.target is not None]
    if on_trans:
        t = frng.choice(on_trans)

        def patch(cfg, _t=t):
            _retarget(cfg, _t.marker, "#m.__nowhere__")
        kinds.append(("unresolvable-target", {"machine_patch": {"cfg": patch}}))
    for engine in ("sync", "async"):
        base, _ = run_once(engine, case, events, gtables, F, ())
        if any(t_["exc"] for t_ in base):
            continue
        for label, kw in kinds:
            if label.startswith("async-action") and engine != "sync":
                continue
            tr, fx = run_once(engine, case, events, gtables, F, ("abort",), **kw)
            res.evaluations += 1
            res.count("aborts." + label.split("@")[0])
            res.hashes.add(h([idx, engine, label, kw.get("drop") or kw.get("async_names")]))
            wit = {"engine": engine, "abort": label, "detail": kw.get("drop") or kw.get("async_names"),
                   "events": events, "plan": case.plan}
            if tr and tr[0]["exc"]:
                res.count("aborts.refused-at-start")
                continue
            # first step whose outcome shows the abort
            failed = None
            for i in range(1, len(tr)):
                if tr[i]["exc"] or (engine == "async" and tr[i].get("errors", 0) > 0):
                    failed = i
                    break
            if failed is None:
                res.count("aborts.never-triggered")
                continue
            res.count("aborts.triggered." + engine)
            st = tr[failed]
            key = "%s/%s" % (label, engine)
            if engine == "sync":
                exc = fx["exc"][0][1]
                if not isinstance(exc, LIBERR):
                    res.violation("C07:abort-not-reported-as-library-error/" + key,
                                  "send() raised %r" % (exc,), wit, case={"idx": idx})
                    continue
            elif st.get("errors", 0) == 0:
                res.violation("C07:abort-not-logged/" + key, "no ERROR record for the failed event",
                              wit, case={"idx": idx})
                continue
            why = oracle.legal(case.tree, st["cfg"])
            if why is not None:
                res.violation("C07:illegal-configuration-after-abort/" + key,
                              "configuration after the aborted transition: %s" % why, wit, case={"idx": idx})
                continue
            # rollback: configuration == last completed transition's `to` (or the one before)
            log = st["log"] or []
            txs = [r for r in log if r[0] == "tx"]
            before = tr[failed - 1]["cfg"]
            expect = txs[-1][2] if txs else before
            n_ev = sum(1 for r in log if r[0] == "ev")
            if engine == "sync" or n_ev <= 1:
                res.count("aborts.rollback-judged")
                if st["cfg"] != expect:
                    res.violation("C07:configuration-not-rolled-back/" + key,
                                  "after the aborted transition: only-now %s, missing %s" % (
                                      sorted(st["cfg"] - expect)[:4], sorted(expect - st["cfg"])[:4]),
                                  wit, case={"idx": idx})
                    continue
                # re-arm: timer census must match the configuration (one per after definition)
                want = {}
                for t_ in case.trans:
                    if t_.kind == "after" and t_.source.id in st["cfg"]:
                        want[t_.source.id] = want.get(t_.source.id, 0) + 1
                got = {k: v for k, v in st["timers"].items() if k in want or v}
                got = {k: v for k, v in got.items() if not k == "m" or k in want}
                if {k: v for k, v in got.items() if k in case.tree.by_id} != want:
                    res.count("aborts.timer-census-compared")
                    res.violation("C07:timers-not-rearmed-exactly-once/" + key,
                                  "live timers after rollback %s, expected %s" % (
                                      {k: v for k, v in got.items() if k in case.tree.by_id}, want),
                                  wit, case={"idx": idx})
                    continue
                res.count("aborts.timer-census-compared")
                if expect == before and not txs and tr[failed - 1].get("timers") is not None \
                        and st["timers"] != tr[failed - 1]["timers"]:
                    res.violation("C07:timers-not-rearmed-exactly-once/" + key,
                                  "census per state before the failed event %s, after its rollback %s" % (
                                      tr[failed - 1]["timers"], st["timers"]), wit, case={"idx": idx})
                    continue
            # responsiveness: later steps are processed without raw errors
            later = tr[failed + 1:]
            if any(t_["exc"] and t_["exc"] not in (
                    "ImplementationMissingError", "StateNotFoundError", "NotSupportedError")
                   for t_ in later):
                res.violation("C07:raw-exception-after-abort/" + key,
                              "later events raised %s" % [t_["exc"] for t_ in later if t_["exc"]][:2],
                              wit, case={"idx": idx})
            can_end = any(n.kind == "final" and n.parent is case.tree.root for n in case.tree.order)
            if later and later[-1]["status"] != "running" and not (
                    can_end and later[-1]["status"] == "done"):
                res.violation("C07:interpreter-not-running-after-abort/" + key,
                              "status %s" % later[-1]["status"], wit, case={"idx": idx})
            for t_ in later:
                w2 = oracle.legal(case.tree, t_["cfg"])
                if w2 is not None:
                    res.violation("C07:illegal-configuration-after-abort/" + key,
                                  "later configuration: %s" % w2, wit, case={"idx": idx})
                    break


def _retarget(cfg, marker, new_target):
    def walk_trans(t):
        for x in (t if isinstance(t, list) else [t]):
            if isinstance(x, dict) and marker in [a for a in x.get("actions", []) if isinstance(a, str)]:
                x["target"] = new_target

    def walk(s):
        for v in (s.get("on") or {}).values():
            if v is not None:
                walk_trans(v)
        for c in (s.get("states") or {}).values():
            walk(c)
    walk(cfg)


def reentry_abort_template(res: Result, engine, how, fail_on):
    """A transition that exits AND re-enters a state owning a timer and a service, and then fails
    deeper in the same transition (a spawn factory that yields no machine -> ActorSpawningError).
    After the rollback the state is active as before, so the census of live timers / service
    tasks per state must be what it was before the failed event - not doubled, not emptied."""
    import time as _t
    calls = {"n": 0, "svc": 0}
    kid = create_machine({"id": "kid", "initial": "a", "states": {"a": {}}}, logic=MachineLogic())

    def factory(i, c, e):
        calls["n"] += 1
        return None if calls["n"] == fail_on else kid
    if engine == "async":
        async def svc(i, c, e):
            calls["svc"] += 1
            await asyncio.sleep(1000)
    else:
        def svc(i, c, e):
            calls["svc"] += 1
            return 1
    w = {"initial": "c", "after": {"900000": {"actions": ["tick"]}},
         "invoke": {"src": "svc", "id": "job", "onDone": {"actions": ["done"]}},
         "on": {"SELF": {"target": "w", "reenter": True}},
         "states": {"c": {"entry": [{"type": "spawn_kidm"}], "after": {"800000": {"actions": ["tick"]}},
                          "on": {"UP": {"target": "#m.w", "reenter": True}, "SIB": {"target": "c", "reenter": True}}}}}
    cfg = {"id": "m", "initial": "w", "states": {"w": w}}
    logic = MachineLogic(actions={"tick": lambda i, c, e, a: None, "done": lambda i, c, e, a: None},
                         services={"svc": svc, "kidm": factory})
    machine = create_machine(cfg, logic=logic)
    ev = {"self": "SELF", "up": "UP", "sib": "SIB"}[how]
    out = {}
    with LogCapture(logging.ERROR) as cap:
        if engine == "sync":
            it = SyncInterpreter(machine).start()
            for k in range(fail_on - 2):
                it.send(ev)
            out["before"] = dict(observe.live_timers(it))
            out["cfg0"] = config_of(it)
            try:
                it.send(ev)
                out["raised"] = None
            except Exception as x:  # noqa: BLE001
                out["raised"] = x
            out["after"] = dict(observe.live_timers(it))
            out["cfg1"] = config_of(it)
            out["kids"] = len(it._actors)
            it.stop()
        else:
            async def body():
                it = Interpreter(machine)
                await it.start()
                await drain(it, max_yields=200)
                for k in range(fail_on - 2):
                    await it.send(ev)
                    await drain(it, max_yields=200)
                out["before"] = dict(observe.live_timers(it))
                out["cfg0"] = config_of(it)
                e0 = cap.count(logging.ERROR)
                await it.send(ev)
                await drain(it, max_yields=200)
                out["raised"] = "logged" if cap.count(logging.ERROR) > e0 else None
                out["after"] = dict(observe.live_timers(it))
                out["cfg1"] = config_of(it)
                out["kids"] = len(it._actors)
                await it.stop()
            run_virtual(body)
    res.evaluations += 1
    res.count("aborts.reentry-template")
    res.hashes.add(h(["reentry-abort", engine, how, fail_on]))
    wit = {"engine": engine, "event": ev, "spawn_factory_fails_on_call": fail_on, "config": cfg,
           "census_before": out.get("before"), "census_after": out.get("after")}
    key = "reentry/%s/%s" % (how, engine)
    if out.get("raised") is None:
        res.count("aborts.reentry-template.not-triggered")
        return
    if engine == "sync" and not isinstance(out["raised"], LIBERR):
        res.violation("C07:abort-not-reported-as-library-error/" + key, repr(out["raised"])[:120], wit)
        return
    if out["cfg1"] != out["cfg0"]:
        res.violation("C07:configuration-not-rolled-back/" + key,
                      "before %s after %s" % (sorted(out["cfg0"]), sorted(out["cfg1"])), wit)
        return
    if out["after"] != out["before"]:
        res.violation("C07:timers-not-rearmed-exactly-once/" + key,
                      "live timers and service tasks per state before the failed event %s, after its "
                      "rollback %s" % (out["before"], out["after"]), wit)


def run_chunk(spec):
    observe.quiet_logs()
    res = Result()
    only = spec.get("only_case")
    if only:
        enum_case(res, spec, only["idx"])
        return res.to_json()
    base = spec["chunk"] * 100000
    wd = Watchdog(res, 400.0)
    for j in range(spec["n"]):
        wd.arm("idx=%d" % (base + j))
        enum_case(res, spec, base + j)
    from .c04 import faulty_event_in_the_middle
    k = 0
    for engine in ("sync", "async"):
        for fault in ("missing-action", "unresolvable-target"):
            for nb, na in ((1, 2), (2, 0)):
                if k % 16 == spec["chunk"] % 16:
                    wd.arm("events behind an aborted transition %s %s" % (engine, fault))
                    faulty_event_in_the_middle(res, engine, fault, nb, na, False, pid=ID)
                    res.count("aborts.events-queued-behind")
                k += 1
    for engine in ("sync", "async"):
        for how in ("self", "up", "sib"):
            for fail_on in (2, 3, 5):
                if k % 16 == spec["chunk"] % 16:
                    wd.arm("reentry template %s %s %d" % (engine, how, fail_on))
                    reentry_abort_template(res, engine, how, fail_on)
                k += 1
    wd.disarm()
    return res.to_json()


def quota(counters, tier):
    out = []
    for k in ("faults.action", "faults.cb.log", "faults.hook:on_transition",
              "faults.hook:on_action_execute", "faults.hook:on_event_received", "faults.hook:on_done",
              "faults.hook:on_service_start", "faults.sub",
              "faults.listener", "faults.pair", "aborts.missing-action",
              "aborts.async-action-under-sync", "aborts.unresolvable-target", "aborts.reentry-template", "aborts.events-queued-behind",
              "aborts.triggered.sync", "aborts.triggered.async", "aborts.rollback-judged",
              "aborts.timer-census-compared"):
        if counters.get(k, 0) == 0:
            out.append("fault-site-kind-never-enumerated:" + k)
    return out
