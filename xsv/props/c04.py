"""C04 — run-to-completion and lossless, ordered event processing."""
from __future__ import annotations

import asyncio
import threading
import time
from collections import deque

from .. import drive, gen, inject, observe
from ..observe import (Event, Interpreter, MachineLogic, Rec, SyncInterpreter, config_of, xs,
                       create_machine, drain, make_machine, run_virtual)
from .common import Result, Watchdog, h, plan_summary, rng_for

ID = "C04"
LEVEL = "exploration"
TECHNIQUE = ("runtime monitoring of recorded histories: every accepted event carries a unique "
             "(producer, k) id; exactly-once, per-producer FIFO, contiguity of per-event action "
             "brackets and no-overlap are checked over on_event_received / marker logs; async "
             "producers are placed on a virtual-time grid incl. mid-macrostep; the sync engine's "
             "own timer/delayed-send/actor threads are perturbed with sys.monitoring LINE yield "
             "injection")
LEVEL_TEXT = ("every recorded history is checked for loss, duplication, reordering, interleaving "
              "and concurrent processing; held on the histories explored")
LEVEL_NOTE = ("trusted: unique ids on events, Recorder, queue wrapper (sync) / send-site records "
              "(async); sync engine is single-threaded for callers by contract, so producers there "
              "are the caller thread plus the engine's own threads")
RULE = ("async: random machines (raise/always/onDone/after, awaiting and slow actions) with 1-4 "
        "producer tasks + caller + bursts up to 5000 on a virtual-time grid; sync: template with "
        "after timers, delayed raises and a child actor sending to its parent, under seeded yield "
        "injection; one evaluation = one history; non-trivial = a send landed mid-macrostep "
        "(async) or an engine thread sent while another thread was draining (sync); distinct = "
        "hash of the accepted-event sequence")
ASSUMPTIONS = ["engine-stamped events (after / done.invoke / done.state) may be discarded when "
               "their activation has ended (C08-C10): received at most once, not exactly once",
               "machines have no top-level final state and self-raised chains stay far below "
               "maxIterations, so nothing is legitimately dropped"]
NCHUNKS = 16


def chunks(tier, seed):
    return [{"name": f"C04-{tier}-{i}", "prop": ID, "tier": tier, "seed": seed, "chunk": i,
             "timeout": 900 if tier == "quick" else 3000} for i in range(NCHUNKS)]


# ---------------------------------------------------------------------------
# history checker (shared)
# ---------------------------------------------------------------------------
def check_history(res, accepted, log, engine, wit, stampable):
    """accepted: list of (producer, event_obj) in acceptance order per producer.
    log: Rec.log (ev / act records)."""
    recv = [r[1] for r in log if r[0] == "ev"]
    ids = [id(e) for e in recv]
    bad = None
    seen = {}
    for e in recv:
        seen[id(e)] = seen.get(id(e), 0) + 1
    dup = [e for e in recv if seen[id(e)] > 1]
    if dup:
        bad = ("C04:event-processed-twice/" + engine,
               "event %r was received %d times" % (dup[0], seen[id(dup[0])]))
    # exactly once for accepted, non-stampable events
    acc_ids = set()
    for prod, e in accepted:
        acc_ids.add(id(e))
        n = seen.get(id(e), 0)
        if stampable(e):
            res.count("accepted.engine-stamped")
            continue
        res.count("accepted.judged")
        if n == 0 and bad is None:
            bad = ("C04:accepted-event-lost/%s/%s" % (engine, prod.split(":")[0]),
                   "event %r accepted from producer %s was never processed" % (e, prod))
    # per-producer FIFO
    pos = {id(e): i for i, e in enumerate(recv)}
    last = {}
    for prod, e in accepted:
        if id(e) not in pos:
            continue
        if prod in last and pos[id(e)] < last[prod] and bad is None:
            bad = ("C04:producer-order-violated/%s/%s" % (engine, prod.split(":")[0]),
                   "events of producer %s were processed out of sending order" % prod)
        last[prod] = max(last.get(prod, -1), pos[id(e)])
    # contiguity: actions only for the most recently received queue event
    cur = None
    for r in log:
        if r[0] == "ev":
            cur = r[1]
        elif r[0] == "act":
            ev = r[2]
            t = getattr(ev, "type", "")
            if t == "" or "init" in t or t.startswith(("entry.", "exit.")):
                continue
            res.count("contiguity.checked")
            if cur is not None and ev is not cur and bad is None:
                # equal-but-distinct objects are fine only if they are the same logical event
                if not (getattr(ev, "type", None) == getattr(cur, "type", None)
                        and getattr(ev, "payload", None) == getattr(cur, "payload", None)):
                    bad = ("C04:actions-of-two-events-interleaved/" + engine,
                           "action %s ran for event %r while %r was the event being processed" % (
                               r[1], ev, cur))
    res.evaluations += 1
    res.count("histories." + engine)
    res.count("events.received", len(recv))
    if bad:
        res.violation(bad[0], bad[1], wit)
    return bad


# ---------------------------------------------------------------------------
# async
# ---------------------------------------------------------------------------
def async_case(res: Result, spec, idx):
    rng = rng_for(spec["seed"], ID, spec["chunk"], idx, "a")
    P = gen.profile("effects", p_root_final=0.0, p_after=0.3, after_delays=[2, 3, 5, 8],
                    after_forward=True,
                    maxit=100000, p_raise=0.2, p_always=0.2)
    case = gen.gen_case(rng_for(spec["seed"], ID, spec["chunk"], idx, "case"), P)
    names = gen.action_names(case.plan)
    yields = {}
    for n in names:
        r = rng.random()
        if r < 0.25:
            yields[n] = rng.randint(1, 3)
        elif r < 0.33:
            yields[n] = -rng.choice([1, 2])      # slow action: 1-2 virtual ms
    nprod = rng.randint(1, 4)
    burst = rng.choice([0, 0, 0, 200, 1000, 5000]) if spec["tier"] == "thorough" or idx % 8 == 0 else 0
    rec = Rec()
    accepted = []
    mid = {"n": 0}
    undrained = {"n": 0}
    early = {"n": 0}
    gt = drive.rand_gtable(rng, case)

    async def body():
        machine = make_machine(case, rec, gt, yields=yields)
        it = Interpreter(machine)
        it.use(rec)
        await it.start()
        early["n"] = sum(1 for r in rec.log if r[0] == "ev")

        async def producer(pid, times):
            for k, t in enumerate(times):
                await asyncio.sleep(max(0.0, t / 1000.0 - asyncio.get_event_loop().time()))
                ev = Event(type=rng.choice(case.events + ["ZZ"]), payload={"p": pid, "k": k})
                if it.status != "running":
                    continue
                if getattr(it, "_processing", False):
                    mid["n"] += 1
                accepted.append(("task%d" % pid, ev))
                await it.send(ev)
        tasks = []
        for pid in range(nprod):
            times = sorted(rng.choice([rng.randint(0, 30), rng.randint(0, 30) + 0.5])
                           for _ in range(rng.randint(3, 15)))
            tasks.append(asyncio.ensure_future(producer(pid, times)))
        # caller
        for k in range(rng.randint(2, 8)):
            ev = Event(type=rng.choice(case.events), payload={"p": "caller", "k": k})
            if it.status == "running":
                if getattr(it, "_processing", False):
                    mid["n"] += 1
                accepted.append(("caller", ev))
                await it.send(ev)
            await asyncio.sleep(rng.choice([0, 0, 0.001, 0.004]))
        if burst:
            evs = [Event(type=rng.choice(case.events), payload={"p": "burst", "k": k}) for k in range(burst)]
            for e in evs:
                accepted.append(("burst", e))
            await asyncio.gather(*[it.send(e) for e in evs])
        await asyncio.gather(*tasks)
        await asyncio.sleep(0.05)
        if not await observe.drain_timed(it, max_steps=20000):
            undrained["n"] += 1
        await it.stop()
    wit = {"engine": "async", "producers": nprod, "burst": burst, "accepted": len(accepted),
           "plan": case.plan if len(accepted) < 200 else "(omitted)"}
    try:
        run_virtual(body)
    except observe.VirtualDeadlock:
        # nothing runnable and nothing scheduled while send()/the run loop are still pending:
        # producers and consumer wait for each other
        res.evaluations += 1
        res.violation("C04:run-loop-and-producers-deadlocked/async",
                      "the event loop ran dry with %d accepted events: every task (the interpreter's "
                      "own run loop included) is waiting and no timer is pending" % len(accepted),
                      dict(wit, accepted=len(accepted)))
        return
    res.count("async.starts-checked")
    if early["n"]:
        res.violation("C04:event-processed-before-start-settled/async",
                      "%d event(s) raised during start-up were processed before start() had "
                      "settled the initial configuration" % early["n"], wit)
        return
    if undrained["n"]:
        res.count("async.undrained")
        return
    if mid["n"]:
        res.count("async.sends-mid-macrostep", mid["n"])
        res.hashes.add(h([idx, "async", [(p, e.type, e.payload.get("k")) for p, e in accepted[:300]]]))
    if burst:
        res.count("async.bursts")
    check_history(res, accepted, rec.log, "async", wit, lambda e: hasattr(e, "owner_id"))
    if idx % 200 == 0:
        res.sample({"engine": "async", "producers": nprod, "burst": burst,
                    "first_accepted": [(p, e.type, e.payload) for p, e in accepted[:6]],
                    "machine": plan_summary(case)})


# ---------------------------------------------------------------------------
# sync (real time + yield injection)
# ---------------------------------------------------------------------------
class LogDeque(deque):
    def __init__(self, sink):
        super().__init__()
        self.sink = sink

    def append(self, x):
        self.sink.append((threading.current_thread().name, x))
        super().append(x)


def sync_template(small_bound=False):
    draise = {"type": "xstate.raise", "params": {"event": {"type": "G", "delayed": True}, "delay": 3}}
    common = {"E": {"actions": ["mark"]}, "F": {"actions": ["mark", draise]},
              "G": {"actions": ["mark"]}, "K": {"actions": ["mark"]},
              "S": {"actions": ["mark", "slow"]}}
    a = {"after": {"4": {"target": "b", "actions": ["mark"]}},
         "on": dict(common, T={"target": "b", "actions": ["mark"]})}
    b = {"after": {"6": {"target": "a", "actions": ["mark"]}},
         "on": dict(common, T={"target": "a", "actions": ["mark"]})}
    z = {"entry": [{"type": "xstate.stopChild", "params": {"id": "kid"}}], "on": dict(common)}
    cfg = {"id": "m", "initial": "a", "on": {"FREEZE": "#m.z"},
           "entry": [{"type": "xstate.spawnChild", "params": {"src": "kid", "id": "kid"}}],
           "states": {"a": a, "b": b, "z": z}}
    if small_bound:
        # far more events arrive from OTHER threads during one slow macrostep than
        # maxIterations allows a machine to raise onto itself: none of them may be dropped
        cfg["maxIterations"] = 12
    kid = {"id": "kid", "initial": "s", "states": {"s": {"after": {"1" if small_bound else "5": {
        "target": "s", "reenter": True,
        "actions": [{"type": "xstate.sendParent", "params": {"event": {"type": "K", "from": "kid"}}}]}}}}}
    return cfg, kid


def sync_case(res: Result, spec, idx, with_injection=True):
    rng = rng_for(spec["seed"], ID, spec["chunk"], idx, "s")
    small = idx % 3 == 0
    cfg, kidcfg = sync_template(small)
    rec = Rec()
    lock = threading.Lock()
    log = rec.log

    def mark(i, c, e, a):
        log.append(("act", "mark", e, None, threading.get_ident()))
    kid = create_machine(kidcfg, logic=MachineLogic())
    def slow(i, c, e, a):
        time.sleep(0.03)
    machine = create_machine(cfg, logic=MachineLogic(actions={"mark": mark, "slow": slow},
                                                     services={"kid": kid}))
    it = SyncInterpreter(machine)
    it.use(rec)
    appended = []
    it._event_queue = LogDeque(appended)
    conc = {"cur": 0, "max": 0, "threads": set()}
    orig_pe = it._process_event

    def pe(event):
        with lock:
            conc["cur"] += 1
            conc["max"] = max(conc["max"], conc["cur"])
            conc["threads"].add(threading.current_thread().name.split("-")[0])
        try:
            return orig_pe(event)
        finally:
            with lock:
                conc["cur"] -= 1
    it._process_event = pe
    SI = SyncInterpreter
    if with_injection:
        inject.enable([SI.send, SI.send_events, SI._process_event_queue, SI._after_timer,
                       SI._deliver, SI._cancel_state_tasks, SI._spawn_actor, SI._note_self_raised],
                      seed=spec["seed"] * 1000 + idx, p=0.3)
    try:
        it.start()
        t_end = time.time() + (0.12 if spec["tier"] == "quick" else 0.25)
        k = 0
        while time.time() < t_end:
            ev = Event(type=rng.choice(["E", "E", "F", "T"] + (["S"] if small else [])),
                       payload={"p": "caller", "k": k})
            k += 1
            if rng.random() < 0.2:
                it.send_events([ev, Event(type="E", payload={"p": "caller", "k": k})])
                k += 1
            else:
                it.send(ev)
            time.sleep(rng.choice([0, 0.0005, 0.001, 0.003]))
        it.send("FREEZE")
        # Quiet phase: in `z` nothing but the engine's own delayed-send threads produce events.
        # Several of them fire at the same instant; if one's wake-up is lost its event stays in
        # the queue for good, because no later send() comes along to drain it.
        stranded = 0
        for rnd in range(3):
            time.sleep(0.004)
            for _ in range(8):
                it.send(Event(type="F", payload={"p": "caller", "k": k}))
                k += 1
            t0 = time.time()
            calm, stuck_since = 0, None
            while time.time() - t0 < 2.0:
                q = len(it._event_queue)
                proc = it._is_processing
                th = any(t.name.startswith("send-") for t in observe.engine_threads())
                if not q and not proc and not th:
                    calm += 1
                    if calm >= 5:
                        break
                else:
                    calm = 0
                if q and not proc and not th:
                    # nobody is draining and nobody will send again: the event is stranded
                    stuck_since = stuck_since or time.time()
                    if time.time() - stuck_since > 0.06:
                        stranded = q
                        break
                else:
                    stuck_since = None
                time.sleep(0.002)
            if stranded:
                break
    finally:
        if with_injection:
            inject.disable()
        it.stop()
    accepted = [("%s:%s" % (tn.split("-")[0], tn), e) for tn, e in appended]
    wit = {"engine": "sync", "accepted": len(accepted), "injection": inject.stats() if with_injection else None,
           "drain_threads": sorted(conc["threads"])}
    res.count("sync.events-appended", len(appended))
    if with_injection:
        st = inject.stats()
        res.count("sync.injection.line-hits", st["line_hits"])
        res.count("sync.injection.sleeps", st["sleeps"])
        res.count("sync.injection.sites", st["sites"])
    producers = {tn.split("-")[0] for tn, _ in appended}
    for p in producers:
        res.count("sync.producer." + p)
    if small:
        res.count("sync.small-bound-runs")
    if len(conc["threads"]) > 1:
        res.count("sync.drains-by-engine-threads")
        res.hashes.add(h([idx, "sync", [(p.split(":")[0], e.type) for p, e in accepted[:300]]]))
    if conc["max"] > 1:
        res.violation("C04:events-processed-concurrently/sync",
                      "%d threads were inside event processing at the same time" % conc["max"], wit)
        return
    if stranded:
        res.violation("C04:event-stranded-in-queue/sync",
                      "%d event(s) left in the queue at quiescence although no drain is running" % stranded, wit)
        return
    check_history(res, accepted, rec.log, "sync", wit, lambda e: hasattr(e, "owner_id"))


def faulty_event_in_the_middle(res: Result, engine, fault, n_before, n_after, cross_thread, pid="C04"):
    """Events accepted BEHIND one whose processing fails (missing action / unresolvable target)
    are still processed, once, in order: in the sync engine the failure is raised from
    send()/send_events() and the rest stays queued for the next drain; in the async engine it is
    logged and the loop goes on."""
    import threading
    got = []
    gate = {"sent": False}

    def note(i, c, e, a):
        got.append(e.payload.get("k"))
        if cross_thread and engine == "sync" and not gate["sent"] and e.payload.get("k") == 0:
            gate["sent"] = True
            th = threading.Thread(target=lambda: i.send(Event(type="A", payload={"k": 900})), daemon=True)
            th.start()
            th.join(1.0)          # accepted (queued) while this macrostep is in flight
    bad = {"missing-action": {"actions": ["not_implemented_anywhere"]},
           "unresolvable-target": {"target": "#m.__nowhere__"}}[fault]
    cfg = {"id": "m", "initial": "s", "states": {"s": {"on": {
        "A": {"actions": ["note"]}, "BAD": bad,
        "R": {"actions": [{"type": "xstate.raise", "params": {"event": {"type": "A", "k": 800}}},
                          {"type": "xstate.raise", "params": {"event": "BAD"}},
                          {"type": "xstate.raise", "params": {"event": {"type": "A", "k": 801}}}]}}}}}
    machine = create_machine(cfg, logic=MachineLogic(actions={"note": note}))
    batch = [Event(type="A", payload={"k": k}) for k in range(n_before)] + [Event(type="BAD", payload={})] + \
            [Event(type="A", payload={"k": 100 + k}) for k in range(n_after)]
    # (the whole batch is queued before the drain starts, so the cross-thread event lands behind it)
    want = list(range(n_before)) + [100 + k for k in range(n_after)] + \
        ([900] if cross_thread and engine == "sync" and n_before else []) + [800, 801] + [999]
    raised = []
    if engine == "sync":
        it = SyncInterpreter(machine).start()
        for step in (lambda: it.send_events(batch), lambda: it.send("R"),
                     lambda: it.send(Event(type="A", payload={"k": 999}))):
            try:
                step()
            except xs.XStateMachineError as x:
                raised.append(type(x).__name__)
            except Exception as x:  # noqa: BLE001
                raised.append("RAW:" + type(x).__name__)
        # anything still queued is drained by one more (harmless) send
        try:
            it.send("NOP")
        except Exception:  # noqa: BLE001
            pass
        it.stop()
    else:
        async def body():
            it = Interpreter(machine)
            await it.start()
            await it.send_events(batch)
            await drain(it, max_yields=400)
            await it.send("R")
            await drain(it, max_yields=400)
            await it.send(Event(type="A", payload={"k": 999}))
            await drain(it, max_yields=400)
            await it.stop()
        run_virtual(body)
    res.evaluations += 1
    res.count("faulty-event.scenarios." + engine)
    res.hashes.add(h(["faulty-mid", engine, fault, n_before, n_after, cross_thread]))
    wit = {"engine": engine, "fault": fault, "batch": [e.type + str(e.payload.get("k", "")) for e in batch],
           "then": ["R (raises A800, BAD, A801)", "A999"], "processed": got, "expected": want,
           "raised": raised}
    if any(r.startswith("RAW:") for r in raised):
        res.violation("%s:raw-exception-from-send/%s" % (pid, engine), str(raised), wit)
    if sorted(got) != sorted(want):
        lost = [k for k in want if k not in got]
        dup = sorted({k for k in got if got.count(k) > 1})
        res.violation("%s:event-behind-a-failing-one-%s/%s/%s" % (pid, "lost" if lost else "duplicated", fault, engine),
                      "lost %s duplicated %s" % (lost, dup), wit)
    elif got != want:
        res.violation("%s:events-behind-a-failing-one-reordered/%s/%s" % (pid, fault, engine),
                      "processed %s, sent %s" % (got, want), wit)


def settle_before_next_event(res: Result, engine, how, depth):
    """Run-to-completion: an event that is already queued when a transition lands in a state with an
    enabled eventless (always) chain is handled only after that chain has settled, i.e. by the
    stable state, never by a transient one."""
    seen = []

    def mk(n):
        return lambda i, c, e, a: seen.append(n)
    states = {"idle": {"on": {"GO": "t0", "PING": {"actions": ["ping@idle"]}}},
              "ready": {"on": {"PING": {"actions": ["ping@ready"]}}}}
    for k in range(depth):
        states["t%d" % k] = {"always": [{"target": "t%d" % (k + 1) if k + 1 < depth else "ready"}],
                             "on": {"PING": {"actions": ["ping@transient"]}}}
    if how == "raised":
        states["idle"]["on"]["GO"] = {"target": "t0", "actions": [
            {"type": "xstate.raise", "params": {"event": "PING"}}]}
    acts = {n: mk(n) for n in ("ping@idle", "ping@ready", "ping@transient")}
    if engine == "async" and how == "other-task":
        async def slow(i, c, e, a):
            await asyncio.sleep(0.002)
        states["idle"]["on"]["GO"] = {"target": "t0", "actions": ["slow"]}
        acts["slow"] = slow
    machine = create_machine({"id": "m", "initial": "idle", "states": states}, logic=MachineLogic(actions=acts))
    if engine == "sync":
        it = SyncInterpreter(machine).start()
        if how == "batch":
            it.send_events(["GO", "PING"])
        else:
            it.send("GO")
        it.stop()
    else:
        async def body():
            it = Interpreter(machine)
            await it.start()
            if how == "batch":
                await it.send_events(["GO", "PING"])
            elif how == "gather":
                await asyncio.gather(it.send("GO"), it.send("PING"))
            elif how == "other-task":
                async def later():
                    await asyncio.sleep(0.001)          # while the GO action is still awaiting
                    await it.send("PING")
                t = asyncio.ensure_future(later())
                await it.send("GO")
                await t
            else:
                await it.send("GO")
            await asyncio.sleep(0.01)
            await drain(it, max_yields=300)
            await it.stop()
        run_virtual(body)
    res.evaluations += 1
    res.count("settle-before-next.scenarios." + engine)
    res.hashes.add(h(["settle", engine, how, depth]))
    if seen != ["ping@ready"]:
        res.violation("C04:event-handled-by-transient-configuration/%s/%s" % (how, engine),
                      "PING was queued behind GO; handled as %s, expected ['ping@ready'] (eventless chain of "
                      "%d steps)" % (seen, depth), {"engine": engine, "how": how, "chain": depth, "handled": seen})


def raise_while_the_initial_configuration_settles(res: Result, engine, where, depth):
    """start(): what an action raises while the initial configuration is still being entered or
    settled (entry action, or the action of an eventless transition leaving the initial state) is
    handled AFTER that, by the stable configuration - never in the middle of the step that raised it."""
    seen = []

    def mk(n):
        return lambda i, c, e, a: seen.append(n)
    rz = {"type": "xstate.raise", "params": {"event": "GO"}}
    states = {"ready": {"entry": ["enter@ready"], "on": {"GO": {"target": "running", "actions": ["go@ready"]}}},
              "running": {"entry": ["enter@running"]}}
    for k in range(depth):
        nxt = "t%d" % (k + 1) if k + 1 < depth else "ready"
        states["t%d" % k] = {"always": [{"target": nxt, "actions": ["hop%d" % k]}],
                             "on": {"GO": {"target": "running", "actions": ["go@transient"]}}}
    if where == "always-action":
        states["t0"]["always"][0]["actions"] = [rz, "hop0"]
    elif where == "last-always-action":
        states["t%d" % (depth - 1)]["always"][0]["actions"] = ["hop%d" % (depth - 1), rz, "after-raise"]
    else:
        states["t0"]["entry"] = [rz, "enter@t0"]
    names = ["enter@ready", "go@ready", "enter@running", "go@transient", "enter@t0", "after-raise"] + [
        "hop%d" % k for k in range(depth)]
    machine = create_machine({"id": "m", "initial": "t0", "states": states},
                             logic=MachineLogic(actions={n: mk(n) for n in names}))
    if engine == "sync":
        it = SyncInterpreter(machine).start()
        cfg = sorted(config_of(it))
        it.stop()
    else:
        out = {}

        async def body():
            it = Interpreter(machine)
            await it.start()
            await drain(it, max_yields=300)
            out["cfg"] = sorted(config_of(it))
            await it.stop()
        run_virtual(body)
        cfg = out.get("cfg")
    res.evaluations += 1
    res.count("raise-during-initial-settle.scenarios." + engine)
    res.hashes.add(h(["initial-settle", engine, where, depth]))
    i_go = seen.index("go@ready") if "go@ready" in seen else None
    ok = (cfg == ["m", "m.running"] and "go@transient" not in seen and i_go is not None
          and seen.index("enter@ready") < i_go
          and all(seen.index("hop%d" % k) < i_go for k in range(depth))
          and ("after-raise" not in names or "after-raise" not in seen or seen.index("after-raise") < i_go)
          and seen[-1] == "enter@running")
    if not ok:
        res.violation("C04:raised-event-handled-inside-the-initial-step/%s/%s" % (where, engine),
                      "GO was raised while the initial configuration settled (%d eventless steps); actions "
                      "ran as %s, final configuration %s" % (depth, seen, cfg),
                      {"engine": engine, "where": where, "chain": depth, "actions": seen, "configuration": cfg})


def long_legal_chain_with_eventless_hops(res: Result, engine, N, hops, per_hop):
    """A self-raised chain that stays BELOW its limit, every link followed by a short eventless
    chain: each of those is settled in full - the configuration between two links, and at the end,
    is a stable one (the eventless budget belongs to one settle, not to the whole chain)."""
    st = {"n": 0, "transient": []}

    def inc(i, c, e, a):
        c["n"] += 1
    ws = {}
    for k in range(per_hop):
        ws["w%d" % k] = {"always": [{"target": "w%d" % (k + 1) if k + 1 < per_hop else "emit"}],
                         "on": {"STEP": {"actions": ["step@transient"]}, "P": {"actions": ["probe@transient"]}}}
    ws["check"] = {"always": [{"guard": "more", "target": "w0"}, {"target": "#m.finished"}]}
    ws["emit"] = {"entry": ["inc", {"type": "xstate.raise", "params": {"event": "STEP"}}],
                  "on": {"STEP": "check"}}
    cfg = {"id": "m", "initial": "idle", "maxIterations": N, "context": {"n": 0, "L": hops},
           "states": {"idle": {"on": {"GO": "loop"}},
                      "loop": {"initial": "check", "states": ws},
                      "finished": {"on": {"P": {"actions": ["probe@finished"]}}}}}
    seen = []
    machine = create_machine(cfg, logic=MachineLogic(
        actions={"inc": inc, "step@transient": lambda i, c, e, a: seen.append("step@transient"),
                 "probe@transient": lambda i, c, e, a: seen.append("probe@transient"),
                 "probe@finished": lambda i, c, e, a: seen.append("probe@finished")},
        guards={"more": lambda c, e: c["n"] < c["L"]}))
    out = {}
    if engine == "sync":
        it = SyncInterpreter(machine).start()
        try:
            it.send("GO")
            it.send("P")
        except Exception as x:  # noqa: BLE001
            out["exc"] = repr(x)
        out["cfg"], out["n"], out["status"] = sorted(config_of(it)), it.context.get("n"), it.status
        it.stop()
    else:
        async def body():
            it = Interpreter(machine)
            await it.start()
            try:
                await it.send("GO")
                await drain(it, max_yields=2000 + 50 * hops * (per_hop + 2))
                await it.send("P")
                await drain(it, max_yields=2000)
            except Exception as x:  # noqa: BLE001
                out["exc"] = repr(x)
            out["cfg"], out["n"], out["status"] = sorted(config_of(it)), it.context.get("n"), it.status
            await it.stop()
        run_virtual(body)
    res.evaluations += 1
    res.count("long-legal-chain.scenarios." + engine)
    res.hashes.add(h(["legal-chain", engine, N, hops, per_hop]))
    if out.get("cfg") != ["m", "m.finished"] or out.get("n") != hops or seen != ["probe@finished"] or "exc" in out:
        res.violation("C04:legal-chain-left-in-a-transient-configuration/%s" % engine,
                      "maxIterations %d, %d self-raised links (below the limit) each followed by %d eventless "
                      "steps: ended in %s with n=%s, status %s, probes %s %s" % (
                          N, hops, per_hop + 1, out.get("cfg"), out.get("n"), out.get("status"), seen,
                          out.get("exc", "")),
                      {"engine": engine, "config": cfg, "observed": out, "handled": seen})


def run_chunk(spec):
    observe.quiet_logs()
    res = Result()
    tier, ci = spec["tier"], spec["chunk"]
    wd = Watchdog(res, 400.0)
    only = spec.get("only_case")
    n_async = 60 if tier == "quick" else 2500
    n_sync = 10 if tier == "quick" else 150
    base = ci * 100000
    for j in range(n_async):
        wd.arm("async idx=%d" % (base + j))
        async_case(res, spec, base + j)
    for j in range(n_sync):
        wd.arm("sync idx=%d" % (base + j))
        sync_case(res, spec, base + j, with_injection=(j % 5 != 4))
    k = 0
    for engine in ("sync", "async"):
        for fault in ("missing-action", "unresolvable-target"):
            for nb, na in ((0, 2), (1, 1), (2, 3), (3, 0)):
                for cross in (False, True):
                    if k % NCHUNKS == ci:
                        wd.arm("faulty event %s %s" % (engine, fault))
                        faulty_event_in_the_middle(res, engine, fault, nb, na, cross)
                    k += 1
    for engine, hows in (("sync", ("batch", "raised")), ("async", ("batch", "gather", "other-task", "raised"))):
        for how in hows:
            for depth in (1, 2, 4):
                if k % NCHUNKS == ci:
                    wd.arm("settle %s %s" % (engine, how))
                    settle_before_next_event(res, engine, how, depth)
                k += 1
    for engine in ("sync", "async"):
        for where in ("always-action", "last-always-action", "entry-action"):
            for depth in (1, 3):
                if k % NCHUNKS == ci:
                    wd.arm("initial settle %s %s" % (engine, where))
                    raise_while_the_initial_configuration_settles(res, engine, where, depth)
                k += 1
        for (N, hops, per_hop) in ((12, 9, 1), (12, 10, 3), (30, 25, 2), (1000, 700, 1)):
            if k % NCHUNKS == ci:
                wd.arm("legal chain %s %d" % (engine, N))
                long_legal_chain_with_eventless_hops(res, engine, N, hops, per_hop)
            k += 1
    wd.disarm()
    return res.to_json()


def quota(counters, tier):
    out = []
    for k in ("histories.async", "histories.sync", "raise-during-initial-settle.scenarios.sync",
              "raise-during-initial-settle.scenarios.async", "long-legal-chain.scenarios.sync",
              "long-legal-chain.scenarios.async", "async.sends-mid-macrostep", "async.bursts",
              "sync.injection.sleeps", "sync.drains-by-engine-threads", "sync.producer.after",
              "sync.producer.send", "sync.producer.MainThread", "contiguity.checked",
              "sync.small-bound-runs", "async.starts-checked", "faulty-event.scenarios.sync",
              "faulty-event.scenarios.async", "settle-before-next.scenarios.sync",
              "settle-before-next.scenarios.async",
              "accepted.judged"):
        if counters.get(k, 0) == 0:
            out.append("monitor-never-reached:" + k)
    # a generated machine may legitimately stay busy for longer than the harness waits (large
    # finite raise fan-out under a 5000-event burst); such histories are skipped, not judged
    if counters.get("async.undrained", 0) > 0.05 * max(1, counters.get("histories.async", 0)):
        out.append("async-not-drained:%d" % counters["async.undrained"])
    return out
