"""C10 — completion: onDone exactly once; a top-level final state ends the machine."""
from __future__ import annotations

import asyncio
import copy
import logging
import time

from .. import drive, gen, observe, oracle
from ..observe import (Interpreter, LogCapture, MachineLogic, SyncInterpreter, config_of, create_machine,
                       drain, run_virtual)
from .common import Result, Watchdog, h, mk_chunks, plan_summary, rng_for

ID = "C10"
LEVEL = "exploration"
TECHNIQUE = ("runtime monitoring: completion edges derived from observed entries of final states "
             "and configurations are matched one-to-one against observed onDone firings; status "
             "descriptor and on_done hook count for top-level completion; post-completion "
             "fingerprint and task/thread census")
LEVEL_TEXT = ("every completion edge of every run must be answered by exactly one onDone firing "
              "and every firing must answer an edge; held on the runs explored")
LEVEL_NOTE = ("trusted: generator tree, oracle.done_direct/done_rec, marker actions; firings while "
              "only a grand-child is final (done_rec and not done_direct) are reported, not judged")
RULE = ("profile 'done' (final children at every level, parallel regions, onDone with arbitrary "
        "targets incl. re-completion, final states with outgoing transitions, machine-level "
        "output, history children in parallel states) x sync+async; one evaluation = one "
        "completion edge; every edge is non-trivial; distinct = hash(case, completed state, "
        "configuration at the edge)")
ASSUMPTIONS = [
    "a completion whose state is exited before its done event is processed need not fire",
    "steps in which the engine logged an ERROR (a self-feeding chain was cut, C13) are not judged "
    "for unanswered completions",
    "done data of a parallel state is not judged ('the final state' is not unique)",
]

TOTAL = {"quick": 1600, "thorough": 50000}
NEV = {"quick": 25, "thorough": 35}


def chunks(tier, seed):
    return mk_chunks(ID, tier, seed, TOTAL[tier], 16, timeout=900 if tier == "quick" else 3000)


def _profile(idx):
    return gen.profile("done", ondone_forward=False, p_root_final=0.2 if idx % 2 else 0.05,
                       p_final=0.4, p_ondone=0.85, p_final_trans=0.3, p_after=0.04,
                       p_history=0.2, maxit=40, machine_output=(idx % 3 == 0),
                       p_parallel=0.4, p_compound=0.5, p_falsy_out=0.35 if idx % 2 else 0.0)


def _marker_of(transition):
    for a in getattr(transition, "actions", []) or []:
        t = getattr(a, "type", "")
        if t.startswith("tr."):
            return t
    return None


def make_case(spec, idx):
    P = _profile(idx)
    case = gen.gen_case(rng_for(spec["seed"], ID, spec["chunk"], idx, "case"), P)
    if P.get("machine_output"):
        case.plan["output"] = {"machine": "out"}
    return case


def run_case(res: Result, spec, idx):
    case = make_case(spec, idx)
    tree = case.tree
    ondone = {t.source.id: t for t in case.trans if t.kind == "onDone"}
    finals = {n.id: n for n in tree.order if n.kind == "final"}
    nev = NEV[spec["tier"]]
    for engine in ("sync", "async"):
        if spec.get("only_engine") and spec["only_engine"] != engine:
            continue
        erng = rng_for(spec["seed"], ID, spec["chunk"], idx, "events")
        S = {"bad": None, "pending": {}, "done_at": None, "after_done_fp": None,
             "status_writes": [], "hook_done": 0}

        def bad(key, what, extra=None):
            if S["bad"] is None:
                S["bad"] = (key, what, extra or {})

        def scan(run, st, errors):
            rec = run["rec"]
            entered_finals = []
            pending = S["pending"]
            last_cfg = None

            def register(to):
                seen_par = set()
                for fin in entered_finals:
                    if fin.id not in to:
                        continue
                    par = fin.parent
                    if par.id in ondone and par.kind == "compound":
                        pending.setdefault(par.id, []).append({"fin": fin, "opt": False})
                        _edge(par, to, fin)
                    anc = par
                    while anc is not None:
                        if anc.id in ondone and anc.id in to and anc.id not in seen_par \
                                and not (anc is par and anc.kind == "compound"):
                            if anc.kind == "parallel" and oracle.done_direct(anc, set(to)):
                                seen_par.add(anc.id)   # one completion per bracket
                                pending.setdefault(anc.id, []).append({"fin": None, "opt": False})
                                _edge(anc, to, fin)
                            elif oracle.done_rec(anc, set(to)):
                                # only a grand-child is final: the engine's recursive reading
                                # fires here; reported, not judged (may fire or not)
                                seen_par.add(anc.id)
                                pending.setdefault(anc.id, []).append({"fin": None, "opt": True})
                        anc = anc.parent
                del entered_finals[:]

            exited_in_bracket = set()
            marker_ev = {}
            for r in rec.log[st.log_from:]:
                if r[0] == "act":
                    last_cfg = r[3]
                    if r[1][:3] == "tr.":
                        marker_ev[r[1]] = r[2]
                    if r[1][:3] == "ex." and r[1].endswith(".a"):
                        exited_in_bracket.add(r[1][3:-2])
                    if r[1][:3] == "en." and r[1].endswith(".a"):
                        sid = r[1][3:-2]
                        if sid in finals:
                            entered_finals.append(finals[sid])
                elif r[0] == "ev":
                    # entries not yet closed by an on_transition report (initial entry)
                    if entered_finals and last_cfg is not None:
                        register(last_cfg)
                elif r[0] == "done":
                    S["hook_done"] += 1
                elif r[0] == "tx":
                    frm, to = r[1], r[2]
                    tr = case.by_marker.get(_marker_of(r[3]))
                    if tr is not None and tr.kind == "onDone":
                        sid = tr.source.id
                        res.count("firings")
                        q = pending.get(sid) or []
                        node = tr.source
                        if q:
                            # answer a judged completion first; optional ones only if no other
                            k = next((i for i, e_ in enumerate(q) if not e_["opt"]), 0)
                            ent = q.pop(k)
                            fin = ent["fin"] if errors == 0 else None
                            if ent["opt"] and fin is None:
                                res.count("firings.optional(grandchild-final-or-uncompleted)")
                            # done data (compound only)
                            ev = marker_ev.get(tr.marker)
                            if node.kind == "compound" and fin is not None and ev is not None:
                                res.count("done-data.checked")
                                if getattr(ev, "data", None) != fin.output:
                                    bad("C10:done-event-data-wrong",
                                        "done.state.%s carried %r, final state %s declares %r" % (
                                            sid, getattr(ev, "data", None), fin.id, fin.output))
                        elif oracle.done_rec(node, set(frm)) and not oracle.done_direct(node, set(frm)):
                            res.count("firings.grandchild-final(reported,not-judged)")
                        elif oracle.done_direct(node, set(frm)) and sid in frm:
                            bad("C10:onDone-fired-twice/%s" % node.kind,
                                "onDone of %s fired again without a new completion" % sid)
                        else:
                            bad("C10:onDone-fired-while-not-done/%s" % node.kind,
                                "onDone of %s fired although the state is not complete (%s)" % (
                                    sid, "inactive" if sid not in frm else "a region is not final"
                                    if node.kind == "parallel" else "active child not final"))
                    # exits cancel pending completions; a state that stops being complete
                    # before its done event is processed may or may not fire (not judged)
                    for sid in list(pending):
                        if sid not in to or sid in exited_in_bracket:
                            if pending[sid]:
                                res.count("completions.moot(state-exited)")
                            pending[sid] = []
                        elif pending[sid] and not oracle.done_direct(tree.by_id[sid], set(to)):
                            for ent in pending[sid]:
                                if not ent["opt"]:
                                    ent["opt"] = True
                                    res.count("completions.optional(un-completed-first)")
                    exited_in_bracket = set()
                    # new completion edges caused by this bracket
                    register(to)
            if entered_finals and last_cfg is not None:
                register(st.cfg)
            # quiescence: every completion of a still-active state must have been answered
            if errors == 0:
                for sid, q in pending.items():
                    q = [ent for ent in q if not ent["opt"]]
                    if q and sid in st.cfg and st.status == "running":
                        bad("C10:completion-not-answered/%s" % tree.by_id[sid].kind,
                            "%s completed (%d time(s)) but its onDone was not taken" % (sid, len(q)))
            else:
                res.count("steps.with-error-log(unjudged-for-unanswered)")
            for sid in pending:
                pending[sid] = []

        def _edge(node, cfg, fin):
            res.evaluations += 1
            res.count("edges." + node.kind)
            res.hashes.add(h([idx, node.id, sorted(cfg)]))

        def fp(run):
            it = run["interp"]
            q = getattr(it, "_event_queue", None)
            try:
                qn = q.qsize() if hasattr(q, "qsize") else len(q)
            except Exception:  # noqa: BLE001
                qn = -1
            return (config_of(it), copy.deepcopy(it.context), it.status, copy.deepcopy(it.output),
                    sum(1 for r in run["rec"].log if r[0] in ("act", "tx", "ev", "ax", "sub")), qn)

        def on_step(run, st):
            if isinstance(st.extra, Exception):
                res.count("raised." + type(st.extra).__name__)
                return True
            it = run["interp"]
            if S["done_at"] is not None:
                res.count("post-done.sends")
                if fp(run) != S["after_done_fp"]:
                    bad("C10:event-after-done-had-effect",
                        "an event sent after completion changed state, context, queue or ran code")
                return S["bad"] is not None or st.i > S["done_at"] + 3
            errs = run["cap"].count(logging.ERROR)
            scan(run, st, errs - run.get("errs_seen", 0))
            run["errs_seen"] = errs
            top_final = [n for n in tree.root.children if n.kind == "final" and n.id in st.cfg]
            if st.status == "done":
                S["done_at"] = st.i
                res.count("top-level-completions")
                if not S.get("final_active_at_done", bool(top_final)):
                    bad("C10:status-done-without-top-level-final",
                        "status was set to done while no final child of the root was active")
                if not top_final:
                    res.count("done-then-left-final-by-another-nominee-of-the-same-event")
                exp = case.plan.get("output") if "output" in case.plan else (
                    top_final[0].output if top_final else None)
                if st.output != exp and (top_final or "output" in case.plan):
                    bad("C10:wrong-machine-output/%s" % ("machine-level" if "output" in case.plan
                                                         else "final-state"),
                        "output is %r, expected %r" % (st.output, exp))
                if S["hook_done"] != 1:
                    bad("C10:on_done-hook-called-%d-times" % S["hook_done"],
                        "on_done plugin hook ran %d times" % S["hook_done"])
                S["after_done_fp"] = fp(run)
            elif top_final and st.status == "running" and tree.root.kind == "compound":
                bad("C10:top-level-final-did-not-complete",
                    "a final child of the root is active but status is %s" % st.status)
            return S["bad"] is not None

        def setup(run):
            run["cap"] = cap

        status_log = []
        sw = observe.install_status_watch()

        root_finals = {n.id for n in tree.root.children if n.kind == "final"}

        def sink(obj, old, new):
            status_log.append((id(obj), old, new))
            if new == "done" and old == "running":
                # judged at the moment of the write: the same event may have nominated further
                # transitions (C02) that run afterwards and leave the final state again
                S["final_active_at_done"] = bool(root_finals & set(observe.config_of(obj)))
        sw.sink = sink
        with LogCapture(logging.ERROR) as cap:
            f = drive.run_sync if engine == "sync" else drive.run_async
            run = f(case, nev, erng, on_step, setup=setup)
        sw.sink = None
        it = run.get("interp")
        if it is not None and S["done_at"] is not None:
            n_done = sum(1 for (o, old, new) in status_log if o == id(it) and new == "done")
            res.count("status-watch.done-writes", n_done)
            if n_done != 1:
                bad("C10:status-done-written-%d-times" % n_done, "status set to done %d times" % n_done)
            # stop() after done releases timers
            if engine == "sync":
                t0 = time.time()
                while observe.engine_threads() and time.time() - t0 < 8.0:
                    time.sleep(0.005)
                if observe.engine_threads():
                    bad("C10:stop-after-done-left-threads",
                        "engine threads alive after stop(): %s" % [t.name for t in observe.engine_threads()][:3])
            if it.status != "stopped":
                bad("C10:stop-after-done-status-%s" % it.status, "status after stop() is %s" % it.status)
            res.count("stop-after-done.checked")
        if idx % 600 == 0 and engine == "sync":
            res.sample({"engine": engine, "events": run["events"][:8], "machine": plan_summary(case)})
        if S["bad"] is not None:
            key, what, extra = S["bad"]
            res.violation(key, what, {"engine": engine, "events": run["events"], "plan": case.plan},
                          case={"idx": idx, "engine": engine})


def pure_post_done(res: Result, spec, idx):
    """The pure API: once a snapshot is done, further events change nothing - status, configuration,
    context AND the recorded output stay what they were when the machine completed."""
    import copy
    case = make_case(spec, idx)
    rng = rng_for(spec["seed"], ID, spec["chunk"], idx, "pure")
    st8 = {"done_at": None, "ref": None, "bad": None, "post": 0}

    def view(st):
        snap_out = copy.deepcopy(st.output)
        return (sorted(st.cfg), copy.deepcopy(st.ctx), st.status, snap_out)

    def on_step(run, st):
        if isinstance(st.extra, Exception):
            return True
        if st8["ref"] is None:
            if st.status == "done":
                st8["ref"] = view(st)
                st8["done_at"] = st.i
            return False
        st8["post"] += 1
        now = view(st)
        if now != st8["ref"] and st8["bad"] is None:
            fld = next(n for n, a, b in zip(("configuration", "context", "status", "output"), st8["ref"], now)
                       if a != b)
            st8["bad"] = (fld, st.i, st8["ref"], now)
        return st8["post"] >= 3
    run = drive.run_pure(case, 24, rng, on_step)
    if st8["ref"] is None:
        return
    res.evaluations += 1
    res.count("pure.done-reached")
    res.count("pure.post-done-steps", st8["post"])
    if st8["ref"][3] is not None:
        res.count("pure.done-with-output")
        res.hashes.add(h([case.plan, run["events"]]))
    if st8["bad"] is not None:
        fld, i, ref, now = st8["bad"]
        res.violation("C10:pure-api-event-after-done-changed-%s" % fld,
                      "pure transition(): an event applied to a done snapshot changed its %s (step %d): %r -> %r" % (
                          fld, i, ref[("configuration", "context", "status", "output").index(fld)],
                          now[("configuration", "context", "status", "output").index(fld)]),
                      {"events": run["events"], "plan": case.plan, "done_at": st8["done_at"]},
                      case={"idx": idx, "pure": True})


def template_case(res: Result, spec, j):
    """Parallel state with N regions: every completion order, with un-complete/re-complete,
    region-level onDone and a history child.  Exact expectation: P's onDone fires once when the
    last region becomes final and never earlier; each region's onDone once per completion."""
    import itertools
    from ..observe import (Event, Interpreter, MachineLogic, SyncInterpreter, create_machine,
                           drain, run_virtual)
    rng = rng_for(spec["seed"], ID, spec["chunk"], j, "tmpl")
    n = rng.choice([2, 3, 3, 4])
    with_hist = rng.random() < 0.5
    region_ondone = [rng.random() < 0.5 for _ in range(n)]
    nested = rng.random() < 0.3      # P inside a compound wrapper
    perms = list(itertools.permutations(range(n)))
    perm = perms[j % len(perms)]
    script = []
    for i in perm:
        script.append("E%d" % i)
        if rng.random() < 0.3:
            script += ["U%d" % i, "E%d" % i]     # un-complete and re-complete before the end
    # P's onDone may also STAY in P; P is then left by OUT and re-entered through its deep history
    # child, which restores every region where it was - final children included: one more completion
    stay = with_hist and rng.random() < 0.6
    if stay:
        for _ in range(rng.choice([1, 1, 2])):
            script += ["OUT", "BACKH"]
            if rng.random() < 0.4:
                i = rng.randrange(n)
                script += ["U%d" % i, "E%d" % i]
    fired = []

    def mk(name):
        return lambda i_, c, e, a, _n=name: fired.append(_n)
    regions = {}
    for i in range(n):
        r = {"initial": "a", "states": {
            "a": {"on": {"E%d" % i: "f"}},
            "f": {"type": "final", "output": {"r": i}, "on": {"U%d" % i: "a"}}}}
        if region_ondone[i]:
            r["onDone"] = {"actions": ["r%d_done" % i]}
        regions["r%d" % i] = r
    if with_hist:
        regions["h"] = {"type": "history", "history": "deep"}
    P = {"type": "parallel", "states": regions, "onDone": {"target": "after", "actions": ["P_done"]}}
    states = {"P": P, "after": {"on": {"BACK": "P"}}}
    if stay:
        P["onDone"] = {"actions": ["P_done"]}
        P["on"] = {"OUT": "away"}
        states["away"] = {"on": {"BACKH": "P.h"}}
    cfg = {"id": "m", "initial": "P", "states": states}
    if nested:
        cfg = {"id": "m", "initial": "w", "states": {"w": {"initial": "P", "states": states}}}
    names = ["P_done"] + ["r%d_done" % i for i in range(n)]
    for engine in ("sync", "async"):
        del fired[:]
        machine = create_machine(cfg, logic=MachineLogic(actions={k: mk(k) for k in names}))
        log = []   # (event, fired-after)
        if engine == "sync":
            it = SyncInterpreter(machine).start()
            for e in script:
                it.send(e)
                log.append((e, list(fired)))
            it.stop()
        else:
            async def body():
                it = Interpreter(machine)
                await it.start()
                for e in script:
                    await it.send(e)
                    await drain(it)
                    log.append((e, list(fired)))
                await it.stop()
            run_virtual(body)
        # expectation
        final = set()
        exp = []
        bad = None
        p_active = True
        for k, (e, got) in enumerate(log):
            if e == "OUT":
                p_active = False
            elif e == "BACKH":
                p_active = True
                for i in sorted(final):
                    if region_ondone[i]:
                        exp.append("r%d_done" % i)
                if len(final) == n:
                    exp.append("P_done")
            i = int(e[1:]) if e[1:].isdigit() else -1
            if e in ("OUT", "BACKH"):
                pass
            elif not p_active:
                pass   # P was left by its onDone: region events no longer apply
            elif e[0] == "E" and i not in final:
                final.add(i)
                if region_ondone[i]:
                    exp.append("r%d_done" % i)
                if len(final) == n:
                    exp.append("P_done")
                    p_active = stay
            elif e[0] == "U":
                final.discard(i)
            if sorted(got) != sorted(exp) and bad is None:
                if got.count("P_done") > exp.count("P_done"):
                    why = "parallel-onDone-fired-before-all-regions-final" if len(final) < n \
                        else "parallel-onDone-fired-twice"
                elif got.count("P_done") < exp.count("P_done"):
                    why = "parallel-onDone-not-fired-when-last-region-completed"
                else:
                    why = "region-onDone-count-wrong"
                bad = (why, k, got, exp)
        res.evaluations += 1
        res.count("template.runs." + engine)
        res.count("template.regions-%d" % n)
        if with_hist:
            res.count("template.with-history-child")
        if stay:
            res.count("template.completed-configuration-restored-through-history")
        if any(region_ondone):
            res.count("template.with-region-onDone")
        res.hashes.add(h(["tmpl", n, with_hist, region_ondone, nested, script, engine]))
        if j % 400 == 0 and engine == "sync":
            res.sample({"template": True, "regions": n, "history_child": with_hist,
                        "region_onDone": region_ondone, "script": script, "fired": list(fired)})
        if bad is not None:
            why, k, got, exp = bad
            res.violation("C10:template:%s%s" % (why, "/history-child" if with_hist else ""),
                          "%s: after %s (step %d) fired %r, expected %r" % (
                              engine, script[:k + 1], k, got, exp),
                          {"engine": engine, "config": cfg, "script": script},
                          case={"idx": j, "template": True})


def _event_of(log, start, marker):
    ev = None
    for r in log[start:]:
        if r[0] == "act" and r[1] == marker:
            ev = r[2]
    return ev


def queued_behind_completion(res: Result, engine, how):
    """Events that are already queued when the machine reaches its top-level final state - the rest
    of a send_events() batch, events raised by the completing transition itself, a send from
    another thread/task during the completing macrostep - are discarded: no guard, no action, no
    context change after completion."""
    import threading
    ran = []
    gate = {"sent": False}

    def mk(n):
        return lambda i, c, e, a: ran.append(n)

    def late(i, c, e, a):
        ran.append("fin-action")
        if how == "other-thread" and engine == "sync" and not gate["sent"]:
            gate["sent"] = True
            th = threading.Thread(target=lambda: i.send("X"), daemon=True)
            th.start()
            th.join(1.0)

    def g(ctx, ev):
        ran.append("guard-evaluated-after-done")
        return True
    fin_actions = ["late"]
    if how == "raised":
        fin_actions.append({"type": "xstate.raise", "params": {"event": "X"}})
    cfg = {"id": "m", "initial": "a", "context": {"n": 0},
           "on": {"X": {"guard": "g", "actions": ["x-handled", {"type": "xstate.assign", "params": {
               "assignment": {"n": 99}}}]}},
           "states": {"a": {"on": {"FIN": {"target": "f", "actions": fin_actions}}}, "f": {"type": "final"}}}
    acts = {"x-handled": mk("x-handled"), "late": late}
    if engine == "async" and how == "other-task":
        async def late_async(i, c, e, a):
            ran.append("fin-action")
            await asyncio.sleep(0.002)
        acts["late"] = late_async
    machine = create_machine(cfg, logic=MachineLogic(actions=acts, guards={"g": g}))
    out = {}
    if engine == "sync":
        it = SyncInterpreter(machine).start()
        if how == "batch":
            it.send_events(["FIN", "X", "X"])
        else:
            it.send("FIN")
        out["status"], out["ctx"] = it.status, dict(it.context)
        it.stop()
    else:
        async def body():
            it = Interpreter(machine)
            await it.start()
            if how == "batch":
                await it.send_events(["FIN", "X", "X"])
            elif how == "other-task":
                async def later():
                    await asyncio.sleep(0.001)
                    await it.send("X")
                t = asyncio.ensure_future(later())
                await it.send("FIN")
                await t
            else:
                await it.send("FIN")
            await asyncio.sleep(0.01)
            await drain(it, max_yields=300)
            out["status"], out["ctx"] = it.status, dict(it.context)
            await it.stop()
        run_virtual(body)
    res.evaluations += 1
    res.count("queued-behind-completion." + engine)
    res.hashes.add(h(["queued-behind", engine, how]))
    wit = {"engine": engine, "how": how, "ran": ran, "status": out.get("status"), "context": out.get("ctx")}
    if out.get("status") != "done":
        res.violation("C10:top-level-final-did-not-complete/%s" % engine, "status %s" % out.get("status"), wit)
    elif [r for r in ran if r != "fin-action"] or out["ctx"].get("n") != 0:
        res.violation("C10:queued-event-processed-after-completion/%s/%s" % (how, engine),
                      "after the machine completed, user code still ran / context changed: %s, n=%s" % (
                          [r for r in ran if r != "fin-action"], out["ctx"].get("n")), wit)


def run_chunk(spec):
    observe.quiet_logs()
    res = Result()
    only = spec.get("only_case")
    if only:
        if only.get("template"):
            template_case(res, spec, only["idx"])
        elif only.get("pure"):
            pure_post_done(res, spec, only["idx"])
        else:
            run_case(res, dict(spec, only_engine=only.get("engine")), only["idx"])
        return res.to_json()
    base = spec["chunk"] * 100000
    wd = Watchdog(res, 400.0)
    for j in range(spec["n"]):
        wd.arm("idx=%d" % (base + j))
        run_case(res, spec, base + j)
        pure_post_done(res, spec, base + j)
        for t in range(4):
            template_case(res, spec, (base + j) * 4 + t)
    k = 0
    for engine, hows in (("sync", ("batch", "raised", "other-thread")), ("async", ("batch", "raised", "other-task"))):
        for how in hows:
            if k % 16 == spec["chunk"] % 16:
                wd.arm("queued behind completion %s %s" % (engine, how))
                queued_behind_completion(res, engine, how)
            k += 1
    wd.disarm()
    return res.to_json()


def quota(counters, tier):
    out = []
    for k in ("edges.compound", "edges.parallel", "firings", "done-data.checked",
              "top-level-completions", "post-done.sends", "status-watch.done-writes",
              "stop-after-done.checked", "template.runs.sync", "template.runs.async",
              "template.with-history-child", "template.with-region-onDone", "template.regions-4",
              "template.completed-configuration-restored-through-history", "pure.post-done-steps", "pure.done-with-output",
              "queued-behind-completion.sync", "queued-behind-completion.async"):
        if counters.get(k, 0) == 0:
            out.append("monitor-never-reached:" + k)
    return out
