"""C02 — selection: deepest handler, first enabled candidate, once per region.

Oracle: oracle.nominees(config_before, event, guard_table) implements the
statement literally.  Observed: transitions reported by on_transition plus the
unique marker action of every transition, for one delivered event.
"""
from __future__ import annotations

import copy

from .. import drive, gen, observe, oracle
from ..observe import config_of
from .common import Result, Watchdog, h, mk_chunks, plan_summary, rng_for

ID = "C02"
LEVEL = "exploration"
TECHNIQUE = ("runtime monitoring: reference selection oracle evaluated on every delivered event "
             "of generated machines x guard valuations; can() probed under extra valuations")
LEVEL_TEXT = ("every delivery of an event to a generated machine is compared with the nominee set "
              "computed from the statement (laws 1-5); held on the deliveries explored")
LEVEL_NOTE = ("trusted: generator-recorded declaration order/targets, oracle.nominees, "
              "oracle.match_descriptors; guards are harness table look-ups")
RULE = ("profile 'select' (2 event types, handlers at every level, 1-3 candidates, guards "
        "true/false/raising, parallel regions with shared ancestors, forbidden(null) handlers) x "
        "sync+async x random walks with a fresh guard valuation per event; one evaluation = one "
        "delivered event; non-trivial = >=2 nominees, or a shared-ancestor nominee, or a stale "
        "skip, or a raising guard evaluated, or a forbidden handler reached; distinct = "
        "hash(plan, config, event, valuation)")
ASSUMPTIONS = [
    "no eventless transitions in the judged workload (an `always` transition enabled by a guard "
    "that flipped without any action is not covered by the statement); they are exercised in the "
    "'extguard' sub-workload where only laws 1-3 are judged",
    "a nominee whose source was exited and re-entered by an earlier winner may fire or be skipped",
]

TOTAL = {"quick": 1600, "thorough": 40000}
NEV = {"quick": 20, "thorough": 30}
CAN_VALUATIONS = {"quick": 4, "thorough": 12}


def chunks(tier, seed):
    return mk_chunks(ID, tier, seed, TOTAL[tier], 16, timeout=900 if tier == "quick" else 3000)


def _marker_of(transition):
    for a in getattr(transition, "actions", []) or []:
        t = getattr(a, "type", "")
        if t.startswith("tr."):
            return t
    return None


def _fingerprint(interp, rec):
    snap = interp.get_persisted_snapshot()
    q = getattr(interp, "_event_queue", None)
    try:
        qlen = q.qsize() if hasattr(q, "qsize") else len(q)
    except Exception:
        qlen = -1
    return (frozenset(snap["configuration"]), repr(sorted(snap["context"].items(), key=str)),
            repr(sorted((k, tuple(v)) for k, v in snap["history"].items())), snap["status"],
            sum(1 for r in rec.log if r[0] in ("act", "ax", "tx", "sub")), qlen)


def run_case(res: Result, spec, idx):
    extg = spec.get("extguard", False)
    P = gen.profile("select", p_forbidden=0.08, p_guard_obj=0.5)
    if idx % 3 == 1:
        # dotted event types with partial ('a.*') and bare ('*') wildcard handlers next to exact ones
        P = gen.profile("select", p_forbidden=0.08, wild=True, events=["a.x", "a.y", "b"], p_handle=0.5,
                        p_guard_obj=0.5)
    if idx % 3 == 2:
        # regions that can end in a final child: a finished region's active leaf is a final state,
        # and it still nominates the handlers declared on its ancestors
        P = gen.profile("select", p_forbidden=0.08, p_final=0.3, p_parallel=0.45, p_guard_obj=0.3)
    if extg:
        P = gen.profile("select", p_forbidden=0.05, p_always=0.3)
    crng = rng_for(spec["seed"], ID, spec["chunk"], idx, "case")
    case = gen.gen_case(crng, P)
    tree = case.tree
    nev = NEV[spec["tier"]]
    for engine in ("sync", "async"):
        if spec.get("only_engine") and spec["only_engine"] != engine:
            continue
        erng = rng_for(spec["seed"], ID, spec["chunk"], idx, "events")
        vrng = rng_for(spec["seed"], ID, spec["chunk"], idx, "valuations")
        st8 = {"bad": None, "pre": None}

        def bad(key, what, extra):
            if st8["bad"] is None:
                st8["bad"] = (key, what, extra)

        def pre_step(run, i, ev):
            interp, rec, gt = run["interp"], run["rec"], run["gtable"]
            cfg = config_of(interp)
            noms = oracle.nominees(case, cfg, ev["type"], gt)
            ctx_before = copy.deepcopy(interp.context)
            fp = _fingerprint(interp, rec)
            # law 5: can() under the delivery valuation and under extra valuations
            for j in range(1 + CAN_VALUATIONS[spec["tier"]]):
                if j == 0:
                    table = dict(gt)
                else:
                    table = drive.rand_gtable(vrng, case)
                saved = dict(gt)
                gt.clear()
                gt.update(table)
                try:
                    expect = bool(oracle.nominees(case, cfg, ev["type"], table))
                    always_enabled = extg and _always_enabled(case, cfg, table)
                    got = interp.can(dict(ev))
                    res.count("can.probes")
                    if not always_enabled and got != expect:
                        bad("C02:can-disagrees", "can(%s)=%s but nominees %s" % (
                            ev["type"], got, "exist" if expect else "do not exist"),
                            {"config": sorted(cfg), "gtable": table})
                finally:
                    gt.clear()
                    gt.update(saved)
            # the Event OBJECT that is about to be delivered is probed last, under a valuation that
            # differs from the delivery one: what can() learnt must not leak into the delivery
            evobj = None
            if i % 2 == 1:
                evobj = drive._mk_event(ev)
                other = drive.rand_gtable(vrng, case)
                saved = dict(gt)
                gt.clear()
                gt.update(other)
                try:
                    interp.can(evobj)
                    res.count("can.probes-with-the-delivered-object")
                finally:
                    gt.clear()
                    gt.update(saved)
            if _fingerprint(interp, rec) != fp:
                bad("C02:can-has-side-effect", "can() changed the observable fingerprint",
                    {"config": sorted(cfg)})
            st8["pre"] = (cfg, noms, ctx_before, fp, dict(gt))
            return evobj

        def on_step(run, st):
            if st.phase == "start":
                if isinstance(st.extra, Exception):
                    res.count("refused." + type(st.extra).__name__)
                    return True
                return False
            interp, rec = run["interp"], run["rec"]
            cfg, noms, ctx_before, fp, table = st8["pre"]
            log = rec.log[st.log_from:]
            res.evaluations += 1
            res.count("deliveries." + engine)
            fired = []
            before = cfg
            for r in log:
                if r[0] == "tx":
                    tr = case.by_marker.get(_marker_of(r[3]))
                    if tr is not None and tr.kind == "on":
                        fired.append(tr)
                        if tr.source.id not in before:
                            bad("C02:stale-transition-fired",
                                "tr.%d fired although its source %s had been exited by an "
                                "earlier winner of the same step" % (tr.tid, tr.source.id), {})
                    elif tr is None:
                        bad("C02:unknown-transition-fired", "on_transition reported a transition "
                            "the generator does not know: %r" % (r[3],), {})
                    before = r[2]
            ran = [case.by_marker[r[1]] for r in log
                   if r[0] == "act" and r[1] in case.by_marker and case.by_marker[r[1]].kind == "on"]
            exited = {r[1][3:-2] for r in log if r[0] == "act" and r[1].startswith("ex.")}
            guards_evald = [r for r in log if r[0] == "guard"]
            if isinstance(st.extra, Exception):
                bad("C02:exception-from-send", "send() raised %r" % (st.extra,), {})
            always_ok = extg and (_always_enabled(case, cfg, table))
            if not always_ok:
                # law 1: F subset of nominees, each at most once
                for t in fired:
                    if not any(t is n for n in noms):
                        bad("C02:non-nominee-fired",
                            "transition tr.%d (%s on %s, pos %d) fired but is not a nominee" % (
                                t.tid, t.event, t.source.id, t.pos), {})
                if len(set(id(t) for t in fired)) != len(fired):
                    bad("C02:transition-fired-twice", "a transition fired more than once for one "
                        "event", {})
                # law 2: a missing nominee must have had its source exited in this step
                for n in noms:
                    if not any(n is t for t in fired):
                        if n.source.id in exited:
                            res.count("stale-skips")
                        else:
                            bad("C02:nominee-not-fired",
                                "nominee tr.%d (%s on %s, pos %d, depth %d) did not fire and its "
                                "source was not exited" % (n.tid, n.event, n.source.id, n.pos,
                                                           n.source.depth), {})
                # law 3: no other transition's actions ran
                for t in ran:
                    if not any(t is f for f in fired):
                        bad("C02:foreign-transition-action-ran",
                            "marker of tr.%d ran although that transition did not fire" % t.tid, {})
                if len(ran) != len(set(id(t) for t in ran)):
                    bad("C02:transition-action-ran-twice", "a transition's action ran twice", {})
                # law 4: no nominee -> perfect no-op
                if not noms and not extg:
                    after = _fingerprint(interp, rec)
                    # the delivered event itself adds one "ev" record only
                    if after != fp:
                        bad("C02:unhandled-event-not-a-noop",
                            "event with no nominee changed the observable fingerprint", {})
                    extra_ev = sum(1 for r in log if r[0] == "ev")
                    if extra_ev != 1:
                        bad("C02:unhandled-event-raised-something",
                            "event with no nominee led to %d received events" % extra_ev, {})
                    if interp.context != ctx_before:
                        bad("C02:unhandled-event-changed-context", "context changed", {})
                    res.count("noop-deliveries")
            else:
                res.count("extguard.always-enabled-unjudged")
            nontrivial = (len(noms) >= 2 or any(len([x for x in oracle.leaves(tree, cfg)
                                                      if x.is_desc_of(n.source)]) >= 2 for n in noms)
                          or any(g[2] == "raise" for g in guards_evald))
            if len(noms) >= 2:
                res.count("deliveries.multi-nominee")
            if any(len([x for x in oracle.leaves(tree, cfg) if x.is_desc_of(n.source)]) >= 2
                   for n in noms):
                res.count("deliveries.shared-ancestor-nominee")
            if any(g[2] == "raise" for g in guards_evald):
                res.count("deliveries.raising-guard")
            if _forbidden_reached(case, cfg, st.event["type"]):
                res.count("deliveries.forbidden-reached")
                nontrivial = True
            if nontrivial:
                res.hashes.add(h([case.plan, sorted(cfg), st.event["type"], table]))
            return st8["bad"] is not None

        f = drive.run_sync if engine == "sync" else drive.run_async
        run = f(case, nev, erng, on_step, pre_step=pre_step)
        if idx % 400 == 0 and engine == "sync":
            res.sample({"engine": engine, "events": run["events"][:6], "machine": plan_summary(case)})
        if st8["bad"] is not None:
            key, what, extra = st8["bad"]
            cfg, noms, _, _, table = st8["pre"]
            w = {"engine": engine, "events": run["events"], "config_before": sorted(cfg),
                 "gtable": table, "nominees": ["tr.%d@%s" % (n.tid, n.source.id) for n in noms],
                 "plan": case.plan}
            w.update(extra)
            res.violation(key + ("/extguard" if extg else ""), what, w,
                          case={"idx": idx, "engine": engine, "extguard": extg})


def _always_enabled(case, cfg, table):
    for t in case.trans:
        if t.kind == "always" and t.source.id in cfg and oracle.guard_true(t.guard, table):
            return True
    return False


def _forbidden_reached(case, cfg, etype):
    idx = oracle.on_index(case)
    for leaf in oracle.leaves(case.tree, cfg):
        n = leaf
        while n is not None:
            for t in idx.get(n.id, {}).get(etype, []):
                if t.forbidden:
                    return True
            n = n.parent
    return False


def run_chunk(spec):
    observe.quiet_logs()
    res = Result()
    only = spec.get("only_case")
    if only:
        run_case(res, dict(spec, only_engine=only.get("engine"), extguard=only.get("extguard", False)),
                 only["idx"])
        return res.to_json()
    base = spec["chunk"] * 100000
    wd = Watchdog(res, 400.0)
    for j in range(spec["n"]):
        wd.arm("idx=%d" % (base + j))
        run_case(res, spec, base + j)
        if spec["tier"] == "thorough" and j % 4 == 0:
            run_case(res, dict(spec, extguard=True), base + j)
    wd.disarm()
    return res.to_json()


def quota(counters, tier):
    out = []
    need = {"deliveries.multi-nominee": 50, "deliveries.shared-ancestor-nominee": 20,
            "stale-skips": 5, "deliveries.raising-guard": 20, "noop-deliveries": 50,
            "deliveries.forbidden-reached": 10, "can.probes": 1000,
            "deliveries.sync": 1000, "deliveries.async": 1000}
    for k, v in need.items():
        if counters.get(k, 0) < v:
            out.append("quota-not-met:%s=%d<%d" % (k, counters.get(k, 0), v))
    return out
