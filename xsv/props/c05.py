"""C05 — sync, async and pure engines compute the same behaviour; pure API is pure."""
from __future__ import annotations

import copy
import threading

from .. import drive, fingerprint, gen, observe, oracle
from .common import Result, Watchdog, h, mk_chunks, plan_summary, rng_for

ID = "C05"
LEVEL = "exploration"
TECHNIQUE = ("runtime monitoring, differential: step-wise comparison of recorded traces of the "
             "three engines on identical machine/logic/events; purity monitors (marker actions, "
             "task wrappers, thread census, definition/snapshot fingerprints) around pure calls")
LEVEL_TEXT = ("every step of every generated run is compared across SyncInterpreter, Interpreter "
              "(at drain) and the chained pure API; held on the runs explored")
LEVEL_NOTE = ("trusted: Recorder/marker logic, harness guard tables flipped identically for all "
              "engines, fingerprint.machine_fp; each engine is first compared with itself and "
              "self-differing cases are attributed to C16")
RULE = ("profiles core/history/effects/done/full (+ plain-callable services for sync vs async) x "
        "random event walks; pure compared on machines without invoke/after; one evaluation = one "
        "(case, engine pair) comparison; non-trivial = >=3 distinct configurations and >=1 "
        "context change or raised event; distinct = hash(plan, events)")
ASSUMPTIONS = [
    "comparison at quiescence; the async engine is observed each time its queue is drained",
    "event types seen by actions of the initial entry are not compared (no triggering event)",
    "pure API: reported action names are compared with executed user action names",
]

PROFILE_CYCLE = ["core", "history", "effects", "done", "full", "full", "effects", "history"]
TOTAL = {"quick": 4800, "thorough": 80000}
NEV = {"quick": 20, "thorough": 30}


def chunks(tier, seed):
    return mk_chunks(ID, tier, seed, TOTAL[tier], 16, timeout=900 if tier == "quick" else 3000)


def _is_user(name):
    return name[:3] in ("en.", "ex.", "tr.", "fx.")


def _trace(engine, case, nev, events, gtables, rng, with_services, batch=0):
    """Runs one engine; returns (trace, events, run)."""
    trace = []

    def on_step(run, st):
        if isinstance(st.extra, Exception):
            trace.append({"exc": type(st.extra).__name__, "phase": st.phase})
            return True
        if engine == "pure":
            acts = [(a.type, None, None) for a in (st.extra or []) if _is_user(a.type)]
        else:
            # name, triggering event type, and the configuration the action saw when it ran
            acts = [(r[1], getattr(r[2], "type", None), tuple(sorted(r[3])))
                    for r in run["rec"].log[st.log_from:] if r[0] == "act"]
        status = st.status
        if engine == "pure" and status == "active":
            status = "running"
        trace.append({"cfg": st.cfg, "ctx": copy.deepcopy(st.ctx), "status": status,
                      "output": copy.deepcopy(st.output), "acts": acts, "phase": st.phase})
        return False

    if engine == "sync":
        run = drive.run_sync(case, nev, rng, on_step, events=events, gtables=gtables, batch=batch)
    elif engine == "async":
        run = drive.run_async(case, nev, rng, on_step, events=events, gtables=gtables, batch=batch)
    else:
        run = drive.run_pure(case, nev, rng, on_step, events=events, gtables=gtables)
    return trace, run["events"], run


def _compare(a, b, ea, eb, names_only):
    """First difference between two traces, as (field, step, detail) or None."""
    for i, (x, y) in enumerate(zip(a, b)):
        if "exc" in x or "exc" in y:
            if x.get("exc") != y.get("exc"):
                return ("exception", i, "%s: %s vs %s: %s" % (ea, x.get("exc"), eb, y.get("exc")))
            return None
        if x["cfg"] != y["cfg"]:
            return ("configuration", i, "%s only: %s; %s only: %s" % (
                ea, sorted(x["cfg"] - y["cfg"])[:4], eb, sorted(y["cfg"] - x["cfg"])[:4]))
        if x["ctx"] != y["ctx"]:
            keys = [k for k in set(x["ctx"]) | set(y["ctx"]) if x["ctx"].get(k) != y["ctx"].get(k)]
            return ("context", i, "keys %s: %r vs %r" % (
                keys[:3], {k: x["ctx"].get(k) for k in keys[:3]}, {k: y["ctx"].get(k) for k in keys[:3]}))
        if x["status"] != y["status"]:
            return ("status", i, "%s vs %s" % (x["status"], y["status"]))
        if x["output"] != y["output"]:
            return ("output", i, "%r vs %r" % (x["output"], y["output"]))
        na, nb = [p[0] for p in x["acts"]], [p[0] for p in y["acts"]]
        if na != nb:
            if sorted(na) == sorted(nb):
                return ("action-order", i, "%s vs %s" % (_firstdiff(na, nb)))
            return ("action-list", i, "only %s: %s; only %s: %s" % (
                ea, _ms(na, nb)[:4], eb, _ms(nb, na)[:4]))
        if not names_only and x["phase"] != "start":
            ta, tb = [p[1] for p in x["acts"]], [p[1] for p in y["acts"]]
            if ta != tb:
                j = next(k for k in range(len(ta)) if ta[k] != tb[k])
                return ("action-event", i, "%s saw %r in %s, %r in %s" % (na[j], ta[j], ea, tb[j], eb))
        ca, cb = [p[2] for p in x["acts"]], [p[2] for p in y["acts"]]
        if None not in ca and None not in cb and ca != cb:
            j = next(k for k in range(len(ca)) if ca[k] != cb[k])
            return ("configuration-seen-by-action", i, "%s ran with %s active in %s, %s in %s" % (
                na[j], sorted(set(ca[j]) - set(cb[j]))[:3] or "-", ea, sorted(set(cb[j]) - set(ca[j]))[:3] or "-", eb))
    if len(a) != len(b):
        return ("length", min(len(a), len(b)), "%d vs %d steps" % (len(a), len(b)))
    return None


def _ms(a, b):
    b = list(b)
    out = []
    for x in a:
        if x in b:
            b.remove(x)
        else:
            out.append(x)
    return out


def _firstdiff(a, b):
    for i, (x, y) in enumerate(zip(a, b)):
        if x != y:
            return (a[i:i + 3], b[i:i + 3])
    return (a[-2:], b[-2:])


def run_case(res: Result, spec, idx):
    pname = PROFILE_CYCLE[idx % len(PROFILE_CYCLE)]
    with_services = idx % 3 == 0
    if with_services:
        # Services complete inside entry in the sync engine and one loop turn later in the
        # async engine.  The engines are only comparable when the invoking state is still
        # current when the result is processed, so these machines carry no eventless
        # transitions, raises, onDone or parallel states (one transition per event; completion
        # *timing* belongs to C09).
        pname = "history" if idx % 2 else "core"
        P = gen.profile(pname, p_invoke=0.3, p_parallel=0.0, p_parallel_root=0.0)
    else:
        # finite raise fan-out must run to its natural end: the cut point of a runaway chain
        # is engine-specific and belongs to C13
        P = gen.profile(pname, maxit=20000, p_raise_d0=0.4, p_raise2=0.35, p_guard_obj=0.3)
        if idx % 4 == 1:
            # local state names reused across parents, targets written in EVERY spelling (bare and
            # relative ones included, ambiguous or not): whatever a spelling denotes, the three
            # engines must agree on it
            # (no eventless / raised / completion follow-ups here: with ambiguous spellings the
            #  generator can no longer keep those chains finite)
            P = gen.profile("history" if idx % 8 == 1 else "core", maxit=20000, p_dup_key=0.6,
                            dup_spell_any=True)
            res.count("runs.with-ambiguous-spellings")
    case = gen.gen_case(rng_for(spec["seed"], ID, spec["chunk"], idx, "case"), P)
    nev = NEV[spec["tier"]]
    grng = rng_for(spec["seed"], ID, spec["chunk"], idx, "gtables")
    gtables = [drive.rand_gtable(grng, case) for _ in range(nev + 1)]
    erng = rng_for(spec["seed"], ID, spec["chunk"], idx, "events")
    ts, events, run_s = _trace("sync", case, nev, None, gtables, erng, with_services)
    # determinism pre-check (soundness rule 1): the engine must agree with itself
    junk = [object() for _ in range(257)]  # noqa: F841  heap perturbation
    ts2, _, _ = _trace("sync", case, nev, events, gtables, erng, with_services)
    if _compare(ts, ts2, "sync", "sync'", False) is not None:
        res.count("self-nondeterministic.attributed-to-C16")
        return
    ta, _, run_a = _trace("async", case, nev, events, gtables, erng, with_services)
    if run_a.get("undrained"):
        res.count("async.undrained", run_a["undrained"])
    pairs = [("sync", ts, "async", ta, False)]
    if not with_services:
        tp, _, _ = _trace("pure", case, nev, events, gtables, erng, with_services)
        pairs.append(("sync", ts, "pure", tp, True))
        pairs.append(("async", ta, "pure", tp, True))
    if not with_services and idx % 3 == 2:
        # the same events handed over three at a time through send_events(): everything a batch
        # member raises queues up BEHIND the rest of the batch, on both engines
        tsb, _, _ = _trace("sync", case, nev, events, gtables, erng, with_services, batch=3)
        tab, _, _ = _trace("async", case, nev, events, gtables, erng, with_services, batch=3)
        pairs.append(("sync/batched", tsb, "async/batched", tab, False))
        res.count("runs.batched")
    cfgs = {t["cfg"] for t in ts if "cfg" in t}
    ctxchg = any(ts[i]["ctx"] != ts[i - 1]["ctx"] for i in range(1, len(ts)) if "ctx" in ts[i] and "ctx" in ts[i - 1])
    raised = any(r[0] == "ev" and getattr(r[1], "payload", None) and r[1].payload.get("raised")
                 for r in run_s["rec"].log)
    if len(cfgs) >= 3 and (ctxchg or raised):
        res.hashes.add(h([case.plan, events]))
    if raised:
        res.count("runs.with-raised-events")
    if any(t.kind == "onDone" for t in case.trans):
        res.count("runs.with-onDone")
    if with_services:
        res.count("runs.with-services")
    if any(n.kind == "history" for n in case.tree.order):
        res.count("runs.with-history")
    for ea, a, eb, b, names_only in pairs:
        res.evaluations += 1
        res.count("compared.%s-vs-%s" % (ea, eb))
        res.count("steps.compared", min(len(a), len(b)))
        d = _compare(a, b, ea, eb, names_only)
        if d is not None:
            field, step, detail = d
            res.violation("C05:%s-vs-%s:%s" % (ea, eb, field),
                          "%s and %s diverge in %s at step %d: %s" % (ea, eb, field, step, detail),
                          {"events": events, "gtables": gtables[:step + 2], "profile": pname,
                           "step": step, "plan": case.plan},
                          case={"idx": idx})
            break
    if idx % 600 == 0:
        res.sample({"profile": pname, "events": events[:6], "steps": len(ts),
                    "machine": plan_summary(case)})


def purity_case(res: Result, spec, idx):
    """Pure API on machines WITH timers/services: nothing may run or start."""
    from xstate_statemachine import initial_transition
    from xstate_statemachine.helpers import transition as pure_transition
    P = gen.profile("full", p_after=0.4, p_invoke=0.4, p_effects=0.5, p_push_fx=0.35)
    case = gen.gen_case(rng_for(spec["seed"], ID, spec["chunk"], idx, "pcase"), P)
    rec = observe.Rec()
    rng = rng_for(spec["seed"], ID, spec["chunk"], idx, "pev")
    gt = drive.rand_gtable(rng, case)
    machine = observe.make_machine(case, rec, gt)
    observe.SINK["log"] = rec.log
    fp0 = fingerprint.machine_fp(machine, resolved=True)
    raw0 = fingerprint.machine_fp(machine, resolved=False)
    threads0 = threading.active_count()
    w0 = dict(observe.WRAP_COUNTS)
    try:
        snap, _ = initial_transition(machine)
        for i in range(12):
            before = (set(snap.state_ids), set(snap.configuration), copy.deepcopy(snap.context),
                      snap.status, copy.deepcopy(snap.output),
                      copy.deepcopy(getattr(snap, "history", None)))
            ev = drive.pick_event(rng, case, snap.configuration, i)
            nxt, _ = pure_transition(machine, snap, dict(ev))
            after = (set(snap.state_ids), set(snap.configuration), snap.context, snap.status,
                     snap.output, getattr(snap, "history", None))
            res.count("purity.transitions")
            if before != after:
                res.violation("C05:pure-mutates-input-snapshot",
                              "transition() changed the snapshot passed in", {"plan": case.plan},
                              case={"idx": idx, "purity": True})
                break
            # branching: the same event applied to the same snapshot again gives the same result
            again, _ = pure_transition(machine, snap, dict(ev))
            res.count("purity.reapplied")
            if (set(again.configuration), again.context, again.status) != (
                    set(nxt.configuration), nxt.context, nxt.status):
                res.violation("C05:pure-result-depends-on-earlier-calls",
                              "applying the same event to the same snapshot twice gave different results",
                              {"plan": case.plan}, case={"idx": idx, "purity": True})
                break
            snap = nxt
    except Exception as e:  # noqa: BLE001
        res.count("purity.raised." + type(e).__name__)
    finally:
        observe.SINK["log"] = None
    res.evaluations += 1
    res.count("purity.cases")
    acts = [r for r in rec.log if r[0] == "act"]
    svc = [r for r in rec.log if r[0] in ("svcall", "arm", "invoke")]
    if acts:
        res.violation("C05:pure-ran-user-action", "pure API executed user action %s" % acts[0][1],
                      {"plan": case.plan}, case={"idx": idx, "purity": True})
    if svc or any(observe.WRAP_COUNTS.get(k, 0) != w0.get(k, 0)
                  for k in ("after_timer", "invoke_service", "spawn_actor")):
        res.violation("C05:pure-started-timer-or-service",
                      "pure API armed a timer / invoked a service / spawned an actor: %r" % (svc[:2],),
                      {"plan": case.plan}, case={"idx": idx, "purity": True})
    if threading.active_count() != threads0:
        res.violation("C05:pure-started-thread", "thread census changed during pure calls",
                      {"plan": case.plan}, case={"idx": idx, "purity": True})
    fp1 = fingerprint.machine_fp(machine, resolved=True)
    if fp1 != fp0:
        res.violation("C05:pure-mutates-machine-definition",
                      "machine definition changed: %s" % fingerprint.diff(fp0, fp1)[:2],
                      {"plan": case.plan}, case={"idx": idx, "purity": True})
    if fingerprint.machine_fp(machine, resolved=False) != raw0:
        res.count("purity.target_str-respelled(reported,not-judged)")


def run_chunk(spec):
    observe.quiet_logs()
    observe.install_task_wrappers()
    res = Result()
    only = spec.get("only_case")
    if only:
        (purity_case if only.get("purity") else run_case)(res, spec, only["idx"])
        return res.to_json()
    base = spec["chunk"] * 100000
    wd = Watchdog(res, 400.0)
    for j in range(spec["n"]):
        wd.arm("idx=%d" % (base + j))
        run_case(res, spec, base + j)
        if j % 5 == 0:
            purity_case(res, spec, base + j)
    wd.disarm()
    return res.to_json()


def quota(counters, tier):
    out = []
    for k in ("compared.sync-vs-async", "compared.sync-vs-pure", "compared.async-vs-pure",
              "runs.with-raised-events", "runs.with-onDone", "runs.with-services",
              "runs.with-history", "purity.cases", "purity.transitions"):
        if counters.get(k, 0) == 0:
            out.append("monitor-never-reached:" + k)
    if counters.get("async.undrained", 0):
        out.append("async-not-drained:%d" % counters["async.undrained"])
    return out
