"""C14 — the interpreter lifecycle is a strict state machine; stop() releases everything."""
from __future__ import annotations

import asyncio
import copy
import threading
import time

from .. import observe
from ..observe import (Event, Interpreter, MachineLogic, SyncInterpreter, config_of, drain,
                       create_machine, run_virtual, xs)
from .common import Result, Watchdog, h, rng_for

ID = "C14"
LEVEL = "exploration"
TECHNIQUE = ("runtime monitoring: a data descriptor on BaseInterpreter.status checks every status "
             "write against the allowed edges; call-level laws (idempotent start/stop, refused "
             "restart, ignored sends) are asserted after every scripted lifecycle call; after "
             "stop() a census of asyncio tasks / engine threads / descendant interpreters is taken "
             "and time is advanced past every pending delay while all recorders must stay silent")
LEVEL_TEXT = ("every scripted lifecycle history (random orders of start/send/stop/restore incl. "
              "stop after done/error, stop while a service completes, stop from inside a running "
              "macrostep) is checked; held on the histories explored")
LEVEL_NOTE = ("trusted: status descriptor (sees every write), virtual loop, census helpers; the "
              "first status write on an object created by from_snapshot is the restored status")
RULE = ("template machine with after timers, delayed raises, an invoked service, a failing "
        "service without onError, a top-level final state and spawned child actors with their "
        "own timers x random lifecycle scripts of 4-14 calls x sync+async; one evaluation = one "
        "history; non-trivial = history with a stop() while timers/services/children were live, "
        "or an out-of-order call; distinct = hash(script, engine)")
ASSUMPTIONS = ["sync engine threads are signalled, not joined, by stop(): they get a 6 s grace "
               "to exit before the census counts them"]
NCHUNKS = 16
LIBERR = xs.XStateMachineError
ALLOWED = {("uninitialized", "running"), ("running", "done"), ("running", "error"),
           ("running", "stopped"), ("done", "stopped"), ("error", "stopped")}


def chunks(tier, seed):
    return [{"name": f"C14-{tier}-{i}", "prop": ID, "tier": tier, "seed": seed, "chunk": i,
             "timeout": 900 if tier == "quick" else 3000} for i in range(NCHUNKS)]


class Boom(Exception):
    pass


#: stop() calls started from inside an action (async): the laws about what holds 'when stop()
#: returns' are judged only once those calls have actually returned
PENDING_STOPS = []


async def settle_stops():
    if PENDING_STOPS:
        await asyncio.gather(*PENDING_STOPS, return_exceptions=True)
        del PENDING_STOPS[:]


def build(engine, log, clock):
    def mk(name):
        return lambda i, c, e, a, _n=name: log.append((clock(), "act", _n, getattr(i, "id", None)))
    kid_cfg = {"id": "kid", "initial": "s", "states": {"s": {"after": {"10": {
        "target": "s", "reenter": True, "actions": ["kidtick"]}}}}}
    kid = create_machine(kid_cfg, logic=MachineLogic(actions={"kidtick": mk("kidtick")}))
    # a child that completes on its own after 23 ms while ITS child keeps ticking: the finished
    # middle actor must not shield the grandchild from the root's stop()
    kid2_cfg = {"id": "kid2", "initial": "s", "states": {
        "s": {"entry": [{"type": "xstate.spawnChild", "params": {"src": "grand", "id": "g"}}],
              "after": {"23": "f"}},
        "f": {"type": "final"}}}
    kid2 = create_machine(kid2_cfg, logic=MachineLogic(services={"grand": kid}))
    kid3 = None
    if engine == "async":
        # a child whose start-up suspends in an awaiting entry action AFTER its root has already
        # armed a heartbeat service: a stop() of the parent that lands in that window must reach it
        async def hb3(i, c, e):
            while True:
                await asyncio.sleep(0.004)
                log.append((clock(), "act", "kid3-heartbeat", getattr(i, "id", None)))

        async def boot3(i, c, e, a):
            await asyncio.sleep(0.012)
        kid3 = create_machine(
            {"id": "kid3", "initial": "boot", "invoke": {"id": "hb", "src": "hb3", "onError": {}},
             "states": {"boot": {"entry": ["boot3"]}}},
            logic=MachineLogic(actions={"boot3": boot3}, services={"hb3": hb3}))
    if engine == "async":
        async def svc(i, c, e):
            log.append((clock(), "svc-start"))
            await asyncio.sleep(0.025)
            log.append((clock(), "svc-end"))
            return 1

        async def bad(i, c, e):
            await asyncio.sleep(0.005)
            raise Boom("bad")

        async def slow(i, c, e, a):
            log.append((clock(), "act", "slow-begin", i.id))
            await asyncio.sleep(0.008)
            log.append((clock(), "act", "slow-end", i.id))

        def stop_self(i, c, e, a):
            log.append((clock(), "act", "stop_self", i.id))
            PENDING_STOPS.append(asyncio.ensure_future(i.stop()))
    else:
        def svc(i, c, e):
            log.append((clock(), "svc-start"))
            return 1

        def bad(i, c, e):
            raise Boom("bad")

        def slow(i, c, e, a):
            log.append((clock(), "act", "slow-begin", i.id))
            time.sleep(0.008)
            log.append((clock(), "act", "slow-end", i.id))

        def stop_self(i, c, e, a):
            log.append((clock(), "act", "stop_self", i.id))
            kids = list(i._actors.values())
            i.stop()
            # census taken INSIDE the action, the moment stop() has returned
            log.append((clock(), "census-in-action", [k.id for k in kids if k.status != "stopped"],
                        dict(observe.live_timers(i))))
    n = {"k": 0}

    def spawn_params(a):
        n["k"] += 1
        return {"src": "kid", "id": "k%d" % n["k"]}

    def spawn3_params(a):
        n["k"] += 1
        return {"src": "kid3", "id": "h%d" % n["k"]}

    def spawn2_params(a):
        n["k"] += 1
        return {"src": "kid2", "id": "j%d" % n["k"]}
    cfg = {"id": "m", "initial": "idle", "on": {"TICK": {"actions": ["tick"]}},
           "states": {
               "idle": {"after": {"500" if engine == "async" else "4000": {"actions": ["longtick"]}},
                        "on": {"WORK": "busy", "FIN": "fin", "FAIL": "failing", "SLOW": {"actions": ["slow"]},
                               "SPAWN": {"actions": [{"type": "xstate.spawnChild", "params": spawn_params}]},
                               "SPAWN2": {"actions": [{"type": "xstate.spawnChild", "params": spawn2_params}]},
                               "DELAY": {"actions": [{"type": "xstate.raise", "params": {
                                   "event": "TICK", "delay": 20 if engine == "async" else 4000}}]},
                               "STOPME": {"actions": ["stop_self", "after_stop_marker"]},
                               # stop() from an action of a transition that THEN enters a state which
                               # spawns a ticking child and arms a timer
                               "STOPGO": {"target": "nursery", "actions": ["stop_self"]},
                               "SPAWN3": {"actions": [{"type": "xstate.spawnChild", "params": spawn3_params}]}
                               if kid3 is not None else {"actions": []}}},
               "nursery": {"entry": [{"type": "xstate.spawnChild", "params": spawn_params}],
                           "after": {"15": {"actions": ["timeout"]}}, "on": {"BACK": "idle"}},
               "busy": {"after": {"15": {"target": "idle", "actions": ["timeout"]}},
                        "invoke": {"src": "svc", "id": "i1", "onDone": {"target": "idle", "actions": ["svcdone"]}},
                        "on": {"BACK": "idle", "SLOW": {"actions": ["slow"]}}},
               "failing": {"invoke": {"src": "bad", "id": "i2"}},
               "fin": {"type": "final", "output": {"ok": True}}}}
    acts = {k: mk(k) for k in ("tick", "timeout", "svcdone", "after_stop_marker", "longtick")}
    acts["slow"] = slow
    acts["stop_self"] = stop_self
    return create_machine(cfg, logic=MachineLogic(actions=acts, services=dict({"svc": svc, "bad": bad, "kid": kid, "kid2": kid2},
                                                                 **({"kid3": kid3} if kid3 is not None else {}))))


def gen_script(rng):
    ops = ["start"]
    if rng.random() < 0.15:
        ops = rng.choice([["send:WORK", "start"], ["stop", "start"], ["start", "start"]])
    for _ in range(rng.randint(3, 12)):
        r = rng.random()
        if r < 0.5:
            ops.append("send:" + rng.choice(["WORK", "BACK", "SPAWN", "DELAY", "SLOW", "TICK", "WORK",
                                             "SPAWN", "SPAWN2", "SPAWN2", "FIN", "FAIL", "STOPME", "STOPGO",
                                             "SPAWN3", "SPAWN3"]))
        elif r < 0.62:
            ops.append("wait:%d" % rng.choice([1, 5, 12, 16, 26, 40]))
        elif r < 0.74:
            ops.append("stop")
        elif r < 0.82:
            ops.append("start")
        elif r < 0.9:
            ops.append("restore")
        else:
            ops.append("burst")
    ops.append("stop")
    ops.append("stop")
    return ops


def fp(it, log):
    q = getattr(it, "_event_queue", None)
    try:
        qn = q.qsize() if hasattr(q, "qsize") else len(q)
    except Exception:  # noqa: BLE001
        qn = -1
    own = sum(1 for r in log if len(r) > 3 and r[3] == it.id)   # children keep ticking
    return (config_of(it), copy.deepcopy(it.context), it.status, own, qn)


class Judge:
    def __init__(self, res, engine, script):
        self.res, self.engine, self.script = res, engine, script
        self.bad = None
        self.interesting = False
        self.seen = {}

    def v(self, key, what):
        if self.bad is None:
            self.bad = (key + "/" + self.engine, what)


def status_sink(writes, seen=None):
    def sink(obj, old, new):
        if seen is not None:
            seen[id(obj)] = obj          # every interpreter whose status was ever written
        writes.append((id(obj), type(obj).__name__, getattr(obj, "id", None), old, new))
    return sink


def census_seen(J):
    """after the root's stop(): every interpreter this history ever created is stopped"""
    for a in J.seen.values():
        J.res.count("census.interpreters-checked")
        if a.status not in ("stopped", "uninitialized"):
            J.v("C14:descendant-actor-not-stopped", "interpreter %s is %s after the root's stop()" % (
                a.id.split(":")[-2] if a.id.count(":") > 1 else a.id, a.status))
            return


def check_writes(J, writes, restored_ids):
    for oid, cls, sid, old, new in writes:
        if old is None or old == new:
            continue            # the constructor's own initialisation / a self-loop
        if old == "uninitialized" and oid in restored_ids and not restored_ids[oid]:
            restored_ids[oid] = True   # from_snapshot's first assignment is the restored status
            continue
        J.res.count("status-writes.checked")
        if (old, new) not in ALLOWED:
            J.v("C14:illegal-status-edge/%s->%s" % (old, new),
                "status of %s went %s -> %s" % (sid, old, new))


def run_async(res, script, idx):
    J = Judge(res, "async", script)
    writes = []
    sw = observe.install_status_watch()
    sw.sink = status_sink(writes, J.seen)
    restored = {}

    async def body():
        del PENDING_STOPS[:]
        loop = asyncio.get_event_loop()
        log = []
        machine = build("async", log, loop.time)
        it = Interpreter(machine)
        kids_seen = []
        base_tasks = set(asyncio.all_tasks())
        for op in script:
            before = fp(it, log)
            status0 = it.status
            live = observe.live_timers(it) or it._actors
            if op == "start":
                try:
                    await it.start()
                    if status0 == "stopped":
                        J.v("C14:start-revived-stopped-interpreter", "start() after stop() returned "
                            "normally (status now %s)" % it.status)
                    elif status0 == "running" and it._event_loop_task is not None and fp(it, log) != before:
                        J.v("C14:start-while-running-not-a-noop", "second start() changed state")
                except LIBERR:
                    if status0 != "stopped":
                        J.v("C14:start-refused-in-status-%s" % status0, "start() raised a library error")
                except Exception as x:  # noqa: BLE001
                    J.v("C14:start-raised-raw-%s" % type(x).__name__, repr(x))
                if status0 in ("stopped", "running"):
                    J.interesting = True
            elif op.startswith("send:"):
                if status0 in ("done", "error", "stopped"):
                    await settle_stops()
                    before = fp(it, log)
                await it.send(op[5:])
                await asyncio.sleep(0)
                if status0 in ("done", "error", "stopped"):
                    J.interesting = True
                    await asyncio.sleep(0.001)
                    after = fp(it, log)
                    # the queue may shrink (a leftover event is discarded), it must not grow
                    if after[:4] != before[:4] or after[4] > before[4]:
                        J.v("C14:send-after-%s-had-effect" % status0,
                            "send() on a %s interpreter changed state, ran code or queued" % status0)
            elif op == "burst":
                await asyncio.gather(*[it.send(e) for e in ("WORK", "BACK", "WORK", "DELAY", "SPAWN")])
            elif op.startswith("wait:"):
                await asyncio.sleep(int(op[5:]) / 1e3)
            elif op == "restore":
                if it.status in ("running", "done", "error"):
                    snap = it.get_snapshot()
                    await it.stop()
                    await census_async(J, it, log, base_tasks, loop)
                    before_ = set(J.seen)
                    it = Interpreter.from_snapshot(snap, machine)
                    restored[id(it)] = False
                    for a in _descendants(it):
                        restored[id(a)] = False
                    for oid in set(J.seen) - before_:      # every interpreter from_snapshot created
                        restored.setdefault(oid, False)
                    try:
                        await it.start()
                    except Exception as x:  # noqa: BLE001
                        J.v("C14:start-of-restored-raised-%s" % type(x).__name__, repr(x))
                    if it.status == "running":
                        n0 = len(log)
                        await it.send("TICK")
                        await asyncio.sleep(0.001)
                        if len(log) == n0:
                            J.v("C14:restored-interpreter-not-resumed",
                                "start() on a restored interpreter did not resume event processing")
                    J.interesting = True
            elif op == "stop":
                if live and status0 == "running":
                    J.interesting = True
                try:
                    await it.stop()
                except Exception as x:  # noqa: BLE001
                    J.v("C14:stop-raised-%s/in-status-%s" % (type(x).__name__, status0), repr(x))
                if status0 != "uninitialized" and it.status != "stopped":
                    J.v("C14:status-after-stop-is-%s" % it.status, "stop() left status %s" % it.status)
                if status0 == "stopped" and fp(it, log) != before:
                    J.v("C14:second-stop-not-a-noop", "stop() on a stopped interpreter changed state")
                if it.status == "stopped":
                    await census_async(J, it, log, base_tasks, loop)
            if J.bad:
                break
        if it.status not in ("stopped", "uninitialized"):
            await it.stop()
    try:
        run_virtual(body)
    finally:
        sw.sink = None
    check_writes(J, writes, restored)
    finish(res, J, idx)


def run_async_cancelled_start(res, idx, cancel_at_ms, how):
    """start() is cancelled (task.cancel() / wait_for timeout) while an entry action of the initial
    state is still awaiting, after the root has already armed a service and a timer.  Whatever
    status that leaves, stop() afterwards must release everything."""
    script = ["start-cancelled@%d/%s" % (cancel_at_ms, how), "stop"]
    J = Judge(res, "async", script)
    writes = []
    sw = observe.install_status_watch()
    sw.sink = status_sink(writes, J.seen)

    async def body():
        del PENDING_STOPS[:]
        loop = asyncio.get_event_loop()
        log = []

        async def hb(i, c, e):
            while True:
                await asyncio.sleep(0.007)
                log.append((loop.time(), "act", "heartbeat", i.id))

        async def boot(i, c, e, a):
            await asyncio.sleep(0.02)
            log.append((loop.time(), "act", "booted", i.id))
        cfg = {"id": "m", "initial": "boot", "invoke": {"id": "hb", "src": "hb", "onError": {}},
               "after": {"9": {"actions": ["rtick"]}},
               "states": {"boot": {"entry": ["boot"], "after": {"5": {"actions": ["btick"]}}}}}
        mk = lambda n: (lambda i, c, e, a: log.append((loop.time(), "act", n, i.id)))  # noqa: E731
        machine = create_machine(cfg, logic=MachineLogic(
            actions={"boot": boot, "rtick": mk("rtick"), "btick": mk("btick")}, services={"hb": hb}))
        it = Interpreter(machine)
        base_tasks = set(asyncio.all_tasks())
        if how == "cancel":
            task = asyncio.ensure_future(it.start())
            await asyncio.sleep(cancel_at_ms / 1e3)
            task.cancel()
            try:
                await task
            except asyncio.CancelledError:
                pass
            except Exception as x:  # noqa: BLE001
                J.v("C14:cancelled-start-raised-%s" % type(x).__name__, repr(x))
        else:
            try:
                await asyncio.wait_for(it.start(), cancel_at_ms / 1e3)
            except asyncio.TimeoutError:
                pass
            except Exception as x:  # noqa: BLE001
                J.v("C14:cancelled-start-raised-%s" % type(x).__name__, repr(x))
        J.interesting = True
        res.count("cancelled-start.status-afterwards." + str(it.status))
        try:
            await it.stop()
        except Exception as x:  # noqa: BLE001
            J.v("C14:stop-raised-%s/after-cancelled-start" % type(x).__name__, repr(x))
        if it.status not in ("stopped", "uninitialized"):
            J.v("C14:status-after-stop-is-%s" % it.status, "stop() after a cancelled start() left %s" % it.status)
        await census_async(J, it, log, base_tasks, loop)
    try:
        run_virtual(body)
    finally:
        sw.sink = None
    check_writes(J, writes, {})
    finish(res, J, idx)


async def census_async(J, it, log, base_tasks, loop):
    J.res.count("census.after-stop")
    await settle_stops()
    await asyncio.sleep(0)
    await asyncio.sleep(0)
    left = [t for t in asyncio.all_tasks() if t not in base_tasks and not t.done()
            and t is not asyncio.current_task()]
    if left:
        J.v("C14:tasks-alive-after-stop", "%d task(s) alive after stop() returned: %s" % (
            len(left), [repr(t.get_coro())[:60] for t in left][:3]))
    for a in _descendants(it):
        if a.status not in ("stopped", "uninitialized"):
            J.v("C14:descendant-actor-not-stopped", "child %s is %s after parent stop()" % (a.id, a.status))
    census_seen(J)
    n0 = len(log)
    await asyncio.sleep(0.12)      # past every pending delay (virtual)
    if len(log) != n0:
        J.v("C14:activity-after-stop", "after stop() returned something still ran: %s" % (log[n0:][:3],))


def _descendants(it, seen=None):
    seen = seen if seen is not None else set()
    out = []
    for a in list(getattr(it, "_xsv_kids", [])) + list(getattr(it, "_actors", {}).values()):
        if id(a) in seen:
            continue
        seen.add(id(a))
        out.append(a)
        out += _descendants(a, seen)
    return out


def run_sync(res, script, idx):
    J = Judge(res, "sync", script)
    writes = []
    sw = observe.install_status_watch()
    sw.sink = status_sink(writes, J.seen)
    restored = {}
    t0 = time.monotonic()
    log = []
    machine = build("sync", log, lambda: time.monotonic() - t0)
    it = SyncInterpreter(machine)
    all_kids = []
    scanned = 0
    try:
        for op in script:
            before = fp(it, log)
            status0 = it.status
            live = observe.live_timers(it) or it._actors
            all_kids += [a for a in it._actors.values() if a not in all_kids]
            if op == "start":
                try:
                    it.start()
                    if status0 == "stopped":
                        J.v("C14:start-revived-stopped-interpreter", "start() after stop() returned normally")
                    elif status0 == "running" and fp(it, log) != before and not live:
                        J.v("C14:start-while-running-not-a-noop", "second start() changed state")
                except LIBERR:
                    if status0 != "stopped":
                        J.v("C14:start-refused-in-status-%s" % status0, "start() raised a library error")
                except Exception as x:  # noqa: BLE001
                    J.v("C14:start-raised-raw-%s" % type(x).__name__, repr(x))
                if status0 in ("stopped", "running"):
                    J.interesting = True
            elif op.startswith("send:"):
                quiet = status0 in ("done", "error", "stopped") and not observe.engine_threads()
                try:
                    it.send(op[5:])
                except LIBERR:
                    pass
                except Exception as x:  # noqa: BLE001
                    J.v("C14:send-raised-raw-%s" % type(x).__name__, repr(x))
                if quiet:
                    J.interesting = True
                    if fp(it, log) != before:
                        J.v("C14:send-after-%s-had-effect" % status0,
                            "send() on a %s interpreter changed state, ran code or queued" % status0)
            elif op == "burst":
                it.send_events(["WORK", "BACK", "WORK", "DELAY", "SPAWN"])
            elif op.startswith("wait:"):
                time.sleep(int(op[5:]) / 1e3)
            elif op == "restore":
                if it.status in ("running", "done", "error"):
                    snap = it.get_snapshot()
                    it.stop()
                    census_sync(J, it, log, all_kids)
                    before_ = set(J.seen)
                    it = SyncInterpreter.from_snapshot(snap, machine)
                    restored[id(it)] = False
                    for a in _descendants(it):
                        restored[id(a)] = False
                    # (a restored child that had already finished is dropped by its supervisor at
                    #  once: every interpreter from_snapshot created counts, reachable or not)
                    for oid in set(J.seen) - before_:
                        restored.setdefault(oid, False)
                    try:
                        it.start()
                    except Exception as x:  # noqa: BLE001
                        J.v("C14:start-of-restored-raised-%s" % type(x).__name__, repr(x))
                    if it.status == "running":
                        n0 = len(log)
                        it.send("TICK")
                        if len(log) == n0:
                            J.v("C14:restored-interpreter-not-resumed", "restored interpreter ignores events")
                    J.interesting = True
            elif op == "stop":
                if live and status0 == "running":
                    J.interesting = True
                try:
                    it.stop()
                except Exception as x:  # noqa: BLE001
                    J.v("C14:stop-raised-%s/in-status-%s" % (type(x).__name__, status0), repr(x))
                if status0 != "uninitialized" and it.status != "stopped":
                    J.v("C14:status-after-stop-is-%s" % it.status, "stop() left status %s" % it.status)
                if it.status == "stopped":
                    census_sync(J, it, log, all_kids)
            for r in log[scanned:]:
                if len(r) > 1 and r[1] == "census-in-action":
                    J.res.count("census.inside-stopping-action")
                    if r[2] or any(r[3].values()):
                        J.v("C14:stop-called-from-action-returned-with-live-resources",
                            "right after stop() returned inside an action: children not stopped %s, live "
                            "timers %s" % (r[2][:2], {k: v for k, v in r[3].items() if v}))
            scanned = len(log)
            if J.bad:
                break
    finally:
        if it.status not in ("stopped", "uninitialized"):
            it.stop()
        sw.sink = None
    check_writes(J, writes, restored)
    finish(res, J, idx)


def census_sync(J, it, log, kids):
    J.res.count("census.after-stop")
    # timer / delayed-send threads are signalled by stop() and wake at once; the delays in the
    # template (4 s in the sync engine) are far longer than the grace (1.2 s, generous so that a
    # released thread gets to run on a loaded machine), so a thread that was NOT released is
    # still waiting when the grace ends.  Actor threads poll every 10 ms and get longer.
    t1 = time.time()
    def waiting():
        return [t for t in observe.engine_threads() if t.name.startswith(("after-", "send-"))]
    while waiting() and time.time() - t1 < 1.2:
        time.sleep(0.003)
    left = [t.name.split("::")[0] for t in waiting()]
    if left:
        J.v("C14:timer-or-send-thread-not-released-by-stop",
            "threads still waiting 1.2 s after stop() returned: %s" % left[:3])
    while observe.engine_threads() and time.time() - t1 < 6.0:
        time.sleep(0.004)
    left = [t.name.split("::")[0] for t in observe.engine_threads()]
    if left:
        J.v("C14:threads-alive-after-stop", "engine threads alive 6 s after stop(): %s" % left[:3])
    for a in kids + _descendants(it):
        if a.status not in ("stopped", "uninitialized"):
            J.v("C14:descendant-actor-not-stopped", "child %s is %s after parent stop()" % (a.id, a.status))
            break
    census_seen(J)
    n0 = len(log)
    time.sleep(0.045)
    if len(log) != n0:
        J.v("C14:activity-after-stop", "after stop() returned something still ran: %s" % (log[n0:][:3],))


def finish(res, J, idx):
    res.evaluations += 1
    res.count("histories." + J.engine)
    if J.interesting:
        res.hashes.add(h([J.script, J.engine]))
    if idx % 100 == 0:
        res.sample({"engine": J.engine, "script": J.script})
    if J.bad:
        res.violation(J.bad[0], J.bad[1], {"engine": J.engine, "script": J.script}, case={"idx": idx})


def restored_finished_root_resumes(res, root_status):
    """(async) A hierarchy whose ROOT had already finished (done) or failed (error) while a spawned
    child was still running is snapshotted, restored and start()ed: start() is how a restored
    hierarchy is resumed, so the restored child works again; stop() then releases everything."""
    from ..observe import MachineLogic as ML
    out = {}

    async def body():
        def boom(i, c, e, a):
            raise RuntimeError("boom")
        child_cfg = {"id": "kid", "initial": "idle", "context": {}, "states": {
            "idle": {"on": {"PING": "pinged"}}, "pinged": {}}}
        pa = {"entry": [{"type": "xstate.spawnChild", "params": {"src": "kid", "id": "w", "systemId": "sys"}}],
              "on": {"FINISH": "fin", "FAIL": "bad"}}
        parent_cfg = {"id": "p", "initial": "a", "context": {}, "states": {
            "a": pa, "fin": {"type": "final"}, "bad": {"invoke": {"src": "failing", "id": "f"}}}}

        def failing(i, c, e):
            raise RuntimeError("service failed")

        def mk():
            return create_machine(parent_cfg, logic=ML(services={
                "kid": create_machine(child_cfg, logic=ML()), "failing": failing}))
        it = Interpreter(mk())
        await it.start()
        await drain(it)
        await it.send("FINISH" if root_status == "done" else "FAIL")
        await drain(it)
        for _ in range(20):
            await asyncio.sleep(0)
        out["orig"] = (it.status, getattr(it.system.get("sys"), "status", None))
        snap = it.get_snapshot()
        await it.stop()
        tw = Interpreter.from_snapshot(snap, mk())
        kid = tw.system.get("sys")
        out["restored"] = (tw.status, getattr(kid, "status", None))
        if kid is None or out["orig"] != (root_status, "running"):
            out["skip"] = True
            await tw.stop()
            return
        base_tasks = set(asyncio.all_tasks())
        await tw.start()
        await kid.send("PING")
        for _ in range(200):
            if "kid.pinged" in config_of(kid):
                break
            await asyncio.sleep(0)
        out["kid_cfg"] = sorted(config_of(kid))
        out["kid_status"] = kid.status
        await tw.stop()
        await settle_stops()
        out["after_stop"] = (tw.status, kid.status)
        out["tasks"] = len([t for t in asyncio.all_tasks() if t not in base_tasks and not t.done()
                            and t is not asyncio.current_task()])
    run_virtual(body)
    res.evaluations += 1
    res.count("restored-finished-root.scenarios." + root_status)
    res.hashes.add(h(["restored-root", root_status]))
    wit = {"root_status": root_status, "observed": out}
    if out.get("skip"):
        res.count("restored-finished-root.not-set-up")
        return
    if out.get("kid_cfg") != ["kid", "kid.pinged"]:
        res.violation("C14:start-does-not-resume-a-restored-hierarchy/%s-root/async" % root_status,
                      "restored root %r with a running child: after start() the child (status %s) did not process "
                      "an event sent to it (configuration %s)" % (out["restored"], out.get("kid_status"),
                                                                  out.get("kid_cfg")), wit)
    elif out.get("after_stop", (None, None))[1] != "stopped" or out.get("tasks"):
        res.violation("C14:restored-hierarchy-not-released-by-stop/async",
                      "after stop(): statuses %s, %s task(s) alive" % (out.get("after_stop"), out.get("tasks")), wit)


def stop_while_a_child_is_stopping_itself(res, gate_ms):
    """(sync) root -> kid -> (g1, g2).  kid finishes, so its OWN actor thread stops it - and is parked
    inside g1.stop(), waiting for g1's macrostep in flight on a timer thread (held by a gate).  The
    main thread calls root.stop() meanwhile: when THAT returns every descendant is stopped."""
    import threading
    gate, blocked = threading.Event(), threading.Event()
    seen, ticks = {}, []

    def block(i, c, e, a):
        seen["g1"] = i
        blocked.set()
        gate.wait(10.0)

    def tick(i, c, e, a):
        seen["g2"] = i
        ticks.append(time.monotonic())

    def capture(i, c, e, a):
        seen["kid"] = i
    ML = MachineLogic
    g1 = create_machine({"id": "g1", "initial": "s", "context": {}, "states": {
        "s": {"after": {"20": {"actions": ["block"]}}}}}, logic=ML(actions={"block": block}))
    g2 = create_machine({"id": "g2", "initial": "t1", "context": {}, "states": {
        "t1": {"entry": ["tick"], "after": {"20": "t2"}}, "t2": {"entry": ["tick"], "after": {"20": "t1"}}}},
        logic=ML(actions={"tick": tick}))
    kid = create_machine({"id": "kid", "initial": "run", "context": {}, "states": {
        "run": {"entry": ["capture", "spawn_g1", "spawn_g2"], "on": {"FIN": "fin"}}, "fin": {"type": "final"}}},
        logic=ML(actions={"capture": capture}, services={"g1": g1, "g2": g2}))
    root_m = create_machine({"id": "root", "initial": "a", "context": {}, "states": {"a": {"entry": ["spawn_kid"]}}},
                            logic=ML(services={"kid": kid}))

    def wait_until(pred, timeout=6.0):
        t0 = time.monotonic()
        while time.monotonic() - t0 < timeout:
            if pred():
                return True
            time.sleep(0.002)
        return pred()
    root = SyncInterpreter(root_m).start()
    out = {}
    try:
        ok = blocked.wait(6.0) and wait_until(lambda: "g2" in seen and len(ticks) >= 2) and "kid" in seen
        if ok:
            k_, a_, b_ = seen["kid"], seen["g1"], seen["g2"]
            k_.send("FIN")
            ok = wait_until(lambda: k_.status == "stopped" and a_.status == "stopped") and b_.status == "running"
        if not ok:
            res.count("stop-while-child-stops-itself.not-set-up")
            return
        opener = threading.Timer(gate_ms / 1e3, gate.set)
        opener.daemon = True
        opener.start()
        t0 = time.monotonic()
        root.stop()
        t_ret = time.monotonic()
        out["stop_took_ms"] = round((t_ret - t0) * 1e3)
        out["g2_status_at_return"] = b_.status
        out["gate_open_at_return"] = gate.is_set()
        time.sleep(0.15)
        out["g2_entries_after_return"] = len([t for t in ticks if t > t_ret])
    finally:
        gate.set()
        root.stop()
        time.sleep(0.05)
    res.evaluations += 1
    res.count("stop-while-child-stops-itself.scenarios")
    res.hashes.add(h(["stop-while-stopping", gate_ms]))
    if out["stop_took_ms"] >= 1800 and not out["gate_open_at_return"]:
        # stop() waits for another thread's teardown for a bounded time (2 s); on a machine so loaded
        # that the gate timer itself is that late, giving up is the documented behaviour: not judged
        res.count("stop-while-child-stops-itself.bounded-wait-expired-unjudged")
        return
    if out["g2_status_at_return"] != "stopped" or out["g2_entries_after_return"]:
        res.violation("C14:stop-returned-while-a-descendant-was-still-live/sync",
                      "root.stop() returned after %d ms while a grandchild was %r; it entered %d more state(s) "
                      "afterwards (another thread was half-way through stopping its parent)" % (
                          out["stop_took_ms"], out["g2_status_at_return"], out["g2_entries_after_return"]),
                      {"gate_ms": gate_ms, "observed": out})


def run_chunk(spec):
    observe.quiet_logs()
    res = Result()
    tier, ci = spec["tier"], spec["chunk"]
    wd = Watchdog(res, 400.0)
    n_async = 60 if tier == "quick" else 24000
    n_sync = 8 if tier == "quick" else 600
    base = ci * 100000
    only = spec.get("only_case")
    for j in range(n_async):
        idx = base + j
        wd.arm("async %d" % idx)
        run_async(res, gen_script(rng_for(spec["seed"], ID, ci, idx, "a")), idx)
    for j in range(n_sync):
        idx = base + 50000 + j
        wd.arm("sync %d" % idx)
        run_sync(res, gen_script(rng_for(spec["seed"], ID, ci, idx, "s")), idx)
    k = 0
    for at in (1, 4, 6, 8, 10, 12, 15, 19):
        for how in ("cancel", "wait_for"):
            if k % NCHUNKS == ci:
                wd.arm("cancelled start %d %s" % (at, how))
                run_async_cancelled_start(res, base + 90000 + k, at, how)
            k += 1
    for rs in ("done", "error"):
        if k % NCHUNKS == ci:
            wd.arm("restored finished root %s" % rs)
            restored_finished_root_resumes(res, rs)
        k += 1
    for gate_ms in (300, 500) * (1 if tier == "quick" else 3):
        if k % NCHUNKS == ci:
            wd.arm("stop while a child stops itself")
            stop_while_a_child_is_stopping_itself(res, gate_ms)
        k += 1
    wd.disarm()
    return res.to_json()


def quota(counters, tier):
    out = []
    for k in ("histories.async", "histories.sync", "status-writes.checked", "census.after-stop",
              "restored-finished-root.scenarios.done", "stop-while-child-stops-itself.scenarios",
              "census.inside-stopping-action", "census.interpreters-checked"):
        if counters.get(k, 0) == 0:
            out.append("monitor-never-reached:" + k)
    return out
