"""C09 — invoked services: one start per activation, one outcome, no zombie results."""
from __future__ import annotations

import asyncio
import threading
import time

from .. import observe
from ..observe import (Event, Interpreter, MachineLogic, SyncInterpreter, config_of, drain,
                       create_machine, run_virtual)
from .common import Result, Watchdog, h, rng_for

ID = "C09"
LEVEL = "exploration"
TECHNIQUE = ("runtime monitoring on a virtual-time loop: harness services log every call with its "
             "activation and return a unique value per call; handler actions log the value they "
             "receive; laws over the stamped log (one call per activation, value belongs to the "
             "current activation, exactly one outcome, error status) plus task/thread/child census")
LEVEL_TEXT = ("every scripted schedule of completion times vs leave/re-enter/stop/slow actions is "
              "checked; held on the schedules explored")
LEVEL_NOTE = ("trusted: virtual loop, script executor, harness services (unique value per call); "
              "child interpreters are observed through their own harness-built actions")
RULE = ("template: state invoking one service (plain callable / coroutine function / child "
        "machine; with and without onError) x completion time and outcome per call (return / "
        "raise) x scripts of GO/LEAVE/BACK/SELF/SLOW/STOP placed around the completion, incl. "
        "completion queued behind leave+re-enter; one evaluation = one executed schedule; "
        "non-trivial = a schedule with a leave, re-entry or stop before/at the completion, or a "
        "failure; distinct = hash(variant, plans, script, engine)")
ASSUMPTIONS = ["sync services complete inside entry; the stale case there is events queued with "
               "send_events() ahead of the completion",
               "'exactly one completion is processed' is judged only when the activation outlives "
               "the completion by more than the total slow-action time in the script"]
NCHUNKS = 16
EPS = 1e-6


def chunks(tier, seed):
    return [{"name": f"C09-{tier}-{i}", "prop": ID, "tier": tier, "seed": seed, "chunk": i,
             "timeout": 900 if tier == "quick" else 3000} for i in range(NCHUNKS)]


class Log:
    def __init__(self, clock):
        self.clock = clock
        self.rows = []
        self.lock = threading.Lock()

    def add(self, *row):
        with self.lock:
            self.rows.append((self.clock(),) + row)


class EvPlugin(observe.PluginBase):
    def __init__(self, log):
        self.log = log

    def on_event_received(self, interp, event):
        self.log.add("ev", event)


def template(kind, with_on_error, with_input=True):
    inv = {"src": "svc", "id": "inv1", "onDone": {"target": "d", "actions": ["done_act"]}}
    if with_input:
        inv["input"] = {"who": "w", "n": 7}
    if with_on_error:
        inv["onError"] = {"target": "e", "actions": ["err_act"]}
    w = {"entry": ["enter_w"], "exit": ["exit_w"], "invoke": inv,
         "on": {"LEAVE": "o", "SELF": {"target": "w", "reenter": True}, "SLOW": {"actions": ["slow"]},
                "NOP": {"actions": ["nop"]}}}
    return {"id": "m", "initial": "idle", "states": {
        "idle": {"on": {"GO": "w"}}, "w": w,
        "o": {"on": {"BACK": "w", "SLOW": {"actions": ["slow"]}}},
        "d": {"on": {"BACK": "w"}}, "e": {"on": {"BACK": "w"}}}}


class ServiceBoom(Exception):
    pass


def build(kind, with_on_error, plans, log: Log, engine, kids):
    """plans[n] = (T_ms, 'ret'|'raise') for the n-th call."""
    calls = {"n": 0}

    def plan_for(n):
        return plans[n] if n < len(plans) else plans[-1]

    def note_call(event):
        n = calls["n"]
        calls["n"] += 1
        inp = (getattr(event, "payload", None) or {}).get("input")
        log.add("call", n, inp)
        return n

    if kind == "plain":
        def svc(interp, ctx, event):
            n = note_call(event)
            T, out = plan_for(n)
            if out == "raise":
                raise ServiceBoom("call-%d" % n)
            return {"call": n}
    elif kind == "coro":
        async def svc(interp, ctx, event):
            n = note_call(event)
            T, out = plan_for(n)
            try:
                await asyncio.sleep(T / 1e3)
            except asyncio.CancelledError:
                log.add("svc-cancelled", n)
                raise
            log.add("svc-complete", n, out)
            if out == "raise":
                raise ServiceBoom("call-%d" % n)
            return {"call": n}
    elif kind == "awaitable":
        # a plain callable that hands back an awaitable which is NOT a coroutine object: a Task,
        # or an object with __await__ (what run_in_executor / a client library typically returns)
        async def inner(n, T, out):
            try:
                await asyncio.sleep(T / 1e3)
            except asyncio.CancelledError:
                log.add("svc-cancelled", n)
                raise
            log.add("svc-complete", n, out)
            if out == "raise":
                raise ServiceBoom("call-%d" % n)
            return {"call": n}

        class Later:
            def __init__(self, coro):
                self.coro = coro

            def __await__(self):
                return self.coro.__await__()

        def svc(interp, ctx, event):
            n = note_call(event)
            T, out = plan_for(n)
            c = inner(n, T, out)
            return asyncio.ensure_future(c) if n % 2 == 0 else Later(c)
    else:  # child machine: completes via its own timer after T ms (plan of call 0 for all)
        T0 = plans[0][0]

        if kind == "machineslow":
            # the child's own start-up suspends (slow async entry action): the invoking state
            # can be left while the child is still inside start()
            async def kid_entry(interp, ctx, event, a):
                kids.append(interp)
                n = note_call(None)
                ctx["call"] = n
                await asyncio.sleep(0.006)
        else:
            def kid_entry(interp, ctx, event, a):
                kids.append(interp)
                n = note_call(None)
                ctx["call"] = n
        kcfg = {"id": "kid", "initial": "run", "context": {"call": -1}, "states": {
            "run": {"entry": ["kid_entry"], "after": {str(max(1, T0)): "fin"}},
            "fin": {"type": "final"}}}
        svc = create_machine(kcfg, logic=MachineLogic(actions={"kid_entry": kid_entry}))

    def mk(name):
        return lambda i, c, e, a, _n=name: log.add("act", _n, e)
    acts = {n: mk(n) for n in ("enter_w", "exit_w", "nop", "done_act", "err_act")}
    if engine == "async":
        async def slow(i, c, e, a):
            await asyncio.sleep(e.payload.get("ms", 1) / 1e3)
    else:
        def slow(i, c, e, a):
            time.sleep(e.payload.get("ms", 1) / 1e3)
    acts["slow"] = slow
    cfg = template(kind, with_on_error)
    return create_machine(cfg, logic=MachineLogic(actions=acts, services={"svc": svc}))


def check(res: Result, log: Log, kind, with_on_error, plans, script, engine, final, wit):
    rows = log.rows
    key_tail = "%s%s/%s" % (kind, "" if with_on_error else "-noOnError", engine)
    acts = []           # [t_in, t_out]
    call_act = {}       # call n -> activation index
    calls_per_act = {}
    handled = {}        # activation -> count
    ev_state = {}
    bad = []

    def v(key, what):
        bad.append((key, what))
    for r in rows:
        t, kind_ = r[0], r[1]
        if kind_ == "act" and r[2] == "enter_w":
            acts.append([t, None])
        elif kind_ == "act" and r[2] == "exit_w":
            if acts and acts[-1][1] is None:
                acts[-1][1] = t
        elif kind_ == "ev":
            ev_state[id(r[2])] = (len(acts) - 1, bool(acts) and acts[-1][1] is None)
        elif kind_ == "call":
            n, inp = r[2], r[3]
            ai = len(acts) - 1
            call_act[n] = ai
            calls_per_act[ai] = calls_per_act.get(ai, 0) + 1
            res.count("service-calls")
            if not kind.startswith("machine") and inp != {"who": "w", "n": 7}:
                v("C09:wrong-input/" + key_tail, "service received input %r" % (inp,))
            if not acts or acts[-1][1] is not None:
                v("C09:service-started-for-inactive-state/" + key_tail, "call %d started while w "
                  "was not active" % n)
        elif kind_ == "act" and r[2] in ("done_act", "err_act"):
            ev = r[3]
            data = getattr(ev, "data", None)
            res.count("handler-firings")
            cur, was_active = ev_state.get(id(ev), (len(acts) - 1, True))
            if r[2] == "done_act":
                n = data.get("call") if isinstance(data, dict) else None
            else:
                n = int(str(data).split("-")[-1]) if isinstance(data, ServiceBoom) else None
            if n is None:
                v("C09:handler-got-foreign-data/" + key_tail, "%s received %r" % (r[2], data))
                continue
            want = "raise" if r[2] == "err_act" else "ret"
            if not kind.startswith("machine") and (plans[n] if n < len(plans) else plans[-1])[1] != want:
                v("C09:wrong-handler-for-outcome/" + key_tail, "call %d ended with %s but %s ran" % (
                    n, (plans[n] if n < len(plans) else plans[-1])[1], r[2]))
            if not was_active:
                v("C09:handler-ran-while-state-inactive/" + key_tail,
                  "%s ran for call %d while w was not active" % (r[2], n))
            elif call_act.get(n) != cur:
                v("C09:stale-result-drove-handler/" + key_tail,
                  "result of call %d (activation %s) drove %s of activation %d" % (
                      n, call_act.get(n), r[2], cur))
            handled[cur] = handled.get(cur, 0) + 1
            if handled[cur] > 1:
                v("C09:two-outcomes-for-one-activation/" + key_tail,
                  "activation %d ran %d completion handlers" % (cur, handled[cur]))
    for ai in range(len(acts)):
        c = calls_per_act.get(ai, 0)
        t_in, t_out = acts[ai]
        lasted = (t_out if t_out is not None else final["t_end"]) - t_in
        if final.get("stopped") is not None and t_out is None:
            lasted = final["stopped"] - t_in
        # an activation that is left in the very tick it was entered may never get to call its
        # service (the async engine starts it one loop turn later): only c > 1 is judged there
        if c > 1 or (c == 0 and lasted > (0.0005 if engine == "async" else 0.05)):
            v("C09:service-started-%d-times-for-one-activation/%s" % (c, key_tail),
              "activation %d of w (lasting %.1f ms) started its service %d times" % (ai, lasted * 1e3, c))
    # bounded progress: completion while the activation is comfortably current must be handled
    busy = sum(op[2].get("ms", 0) for op in script if op[1] == "send" and op[2].get("type") == "SLOW") / 1e3
    for n, ai in call_act.items():
        if ai < 0 or ai >= len(acts):
            continue
        T, out = plans[n] if n < len(plans) else plans[-1]
        if kind.startswith("machine"):
            T, out = plans[0][0] + (6 if kind == "machineslow" else 0), "ret"
        t_in, t_out = acts[ai]
        t_done = t_in + (T / 1e3 if kind != "plain" else 0.0)
        end = t_out if t_out is not None else final["t_end"]
        margin = busy + (0.002 if engine == "async" else 0.5) + (0.1 if kind.startswith("machine") else 0.0)
        if final.get("stopped") is not None and final["stopped"] < t_done + margin:
            continue
        failed_before = any(r[1] == "status" and r[2] == "error" and r[0] <= t_done + margin
                            for r in rows)
        if end - t_done > margin:
            if out == "ret" or with_on_error:
                if failed_before:
                    res.count("completions.unjudged(machine-already-failed)")
                elif handled.get(ai, 0) != 1:
                    v("C09:completion-not-handled/" + key_tail,
                      "call %d completed (%s) at %.1f ms while activation %d was current until "
                      "%.1f ms, but no handler ran" % (n, out, t_done * 1e3, ai, end * 1e3))
            else:
                res.count("unhandled-failures")
                seen = [r for r in rows if r[1] == "status" and r[0] >= t_done - EPS]
                if not any(r[2] == "error" for r in seen):
                    v("C09:unhandled-failure-did-not-set-error-status/" + key_tail,
                      "service failed with no onError but status stayed %s" % (
                          sorted({r[2] for r in seen}) or final.get("status")))
                elif not any(isinstance(r[3], ServiceBoom) for r in seen if r[2] == "error"):
                    v("C09:error-not-recorded/" + key_tail, "interpreter.error is %r" % (final.get("error"),))
    # census
    if final.get("leftover_tasks"):
        v("C09:tasks-alive-after-stop/" + key_tail, "%d asyncio tasks alive after stop(): %s" % (
            len(final["leftover_tasks"]), final["leftover_tasks"][:3]))
    if final.get("leftover_threads"):
        v("C09:threads-alive-after-stop/" + key_tail, "threads alive after stop(): %s" % (
            final["leftover_threads"][:3],))
    for when, n_owned in final.get("owned_after_exit", []):
        res.count("census.after-exit")
        if n_owned:
            v("C09:service-task-alive-after-exit/" + key_tail,
              "%d task(s) owned by w still alive at %.1f ms although w was exited" % (n_owned, when * 1e3))
    for st in final.get("kids_running_after", []):
        v("C09:child-machine-alive-after-exit-or-stop/" + key_tail,
          "invoked child interpreter still %s after its invoking state was left / parent stopped" % st)
    res.evaluations += 1
    res.count("schedules." + engine)
    res.count("schedules.kind." + kind)
    res.hashes.add(h([kind, with_on_error, plans, script, engine]))
    for key, what in bad[:1]:
        res.violation(key, what, wit)


def run_async(res, kind, with_on_error, plans, script, wit):
    final = {}
    kids = []

    async def body():
        loop = asyncio.get_event_loop()
        log = Log(loop.time)
        machine = build(kind, with_on_error, plans, log, "async", kids)
        it = Interpreter(machine)
        it.use(EvPlugin(log))
        base_tasks = set(asyncio.all_tasks())
        owned = []

        async def op_task(t_ms, op, arg):
            await asyncio.sleep(t_ms / 1e3)
            log.add("status", it.status, it.error)
            if op == "send":
                await it.send(Event(type=arg["type"], payload=dict(arg)))
            elif op == "stop":
                await it.stop()
                final.setdefault("stopped", loop.time())
        await it.start()
        tasks = [asyncio.ensure_future(op_task(*o)) for o in script]

        async def sampler():
            # quiescent census: when w is inactive, nothing it started may be alive
            while True:
                await asyncio.sleep(0.0035)
                log.add("status", it.status, it.error)
                if it.status == "running" and not getattr(it, "_processing", False) \
                        and it._event_queue.empty() and not any(s.endswith(".w") for s in config_of(it)):
                    n = observe.live_timers(it).get("m.w", 0)
                    owned.append((loop.time(), n))
                    for k in kids:
                        if k.status == "running":
                            final.setdefault("kids_running_after", []).append("running@%.1fms" % (loop.time() * 1e3))
        smp = asyncio.ensure_future(sampler())
        horizon = (max([o[0] for o in script] + [0]) + 4 * max(p[0] for p in plans) + 150) / 1e3
        await asyncio.sleep(horizon)
        await asyncio.gather(*tasks, return_exceptions=True)
        smp.cancel()
        final["t_end"] = loop.time()
        final["status"] = it.status
        final["error"] = it.error
        if it.status != "stopped":
            await it.stop()
        await asyncio.sleep(0.02)
        left = [t for t in asyncio.all_tasks() if t not in base_tasks and not t.done()
                and t is not asyncio.current_task() and t is not smp]
        final["leftover_tasks"] = [repr(t.get_coro())[:80] for t in left]
        final["owned_after_exit"] = owned[:50]
        for k in kids:
            if k.status == "running":
                final.setdefault("kids_running_after", []).append("running-after-stop")
        final["log"] = log
    run_virtual(body)
    check(res, final["log"], kind, with_on_error, plans, script, "async", final, wit)


def run_sync(res, kind, with_on_error, plans, script, wit):
    final = {}
    kids = []
    t0 = time.monotonic()
    log = Log(lambda: time.monotonic() - t0)
    machine = build(kind, with_on_error, plans, log, "sync", kids)
    it = SyncInterpreter(machine)
    it.use(EvPlugin(log))
    it.start()
    try:
        ops = sorted(script, key=lambda o: o[0])
        i = 0
        while i < len(ops):
            t_ms = ops[i][0]
            wait = t_ms / 1e3 - (time.monotonic() - t0)
            if wait > 0:
                time.sleep(wait)
            batch = []
            while i < len(ops) and ops[i][0] == t_ms:
                batch.append(ops[i])
                i += 1
            sends = [Event(type=o[2]["type"], payload=dict(o[2])) for o in batch if o[1] == "send"]
            try:
                if len(sends) > 1:
                    it.send_events(sends)
                elif sends:
                    it.send(sends[0])
            except Exception as x:  # noqa: BLE001
                log.add("send-raised", repr(x))
            log.add("status", it.status, it.error)
            for o in batch:
                if o[1] == "stop":
                    it.stop()
                    final.setdefault("stopped", time.monotonic() - t0)
        horizon = (max([o[0] for o in script] + [0]) + 60 + (4 * plans[0][0] if kind == "machine" else 0)) / 1e3
        while time.monotonic() - t0 < horizon:
            time.sleep(0.005)
        log.add("status", it.status, it.error)
        final["t_end"] = time.monotonic() - t0
        final["status"] = it.status
        final["error"] = it.error
    finally:
        if it.status != "stopped":
            it.stop()
    t1 = time.time()
    while observe.engine_threads() and time.time() - t1 < 8.0:
        time.sleep(0.005)
    final["leftover_threads"] = [t.name for t in observe.engine_threads()]
    for k in kids:
        if k.status == "running":
            final.setdefault("kids_running_after", []).append("running-after-stop")
    check(res, log, kind, with_on_error, plans, script, "sync", final, wit)


def scripts_for(T):
    S = []
    go = (0, "send", {"type": "GO"})
    S.append(("plain", [go]))
    for dt in (-1, 0, 1):
        t = T + dt
        S.append(("leave@%+d" % dt, [go, (t, "send", {"type": "LEAVE"})]))
        S.append(("leave-back@%+d" % dt, [go, (t, "send", {"type": "LEAVE"}), (t, "send", {"type": "BACK"})]))
        S.append(("self@%+d" % dt, [go, (t, "send", {"type": "SELF"})]))
        S.append(("stop@%+d" % dt, [go, (t, "stop", None)]))
    for s0, dur in ((max(0, T - 2), 5), (0, T + 4)):
        S.append(("slow-span+leave+back", [go, (s0, "send", {"type": "SLOW", "ms": dur}),
                                           (s0, "send", {"type": "LEAVE"}), (s0, "send", {"type": "BACK"})]))
        S.append(("slow-span+self", [go, (s0, "send", {"type": "SLOW", "ms": dur}),
                                     (s0, "send", {"type": "SELF"})]))
        S.append(("slow-span+leave", [go, (s0, "send", {"type": "SLOW", "ms": dur}),
                                      (s0, "send", {"type": "LEAVE"})]))
    S.append(("go+leave+back-queued", [(0, "send", {"type": "GO"}), (0, "send", {"type": "LEAVE"}),
                                       (0, "send", {"type": "BACK"})]))
    S.append(("go+self-queued", [(0, "send", {"type": "GO"}), (0, "send", {"type": "SELF"}),
                                 (0, "send", {"type": "SELF"})]))
    return S


def random_script(rng, T):
    ops = [(0, "send", {"type": "GO"})]
    for _ in range(rng.randint(1, 6)):
        t = rng.choice([rng.randint(0, 3 * T + 3), T - 1, T, T + 1, 0])
        r = rng.random()
        if r < 0.2:
            ops.append((t, "send", {"type": "SLOW", "ms": rng.choice([1, T // 2 + 1, T + 2])}))
        elif r < 0.45:
            ops.append((t, "send", {"type": "LEAVE"}))
        elif r < 0.7:
            ops.append((t, "send", {"type": "BACK"}))
        elif r < 0.85:
            ops.append((t, "send", {"type": "SELF"}))
        elif r < 0.93:
            ops.append((t, "send", {"type": "NOP"}))
        else:
            ops.append((t, "stop", None))
    ops.sort(key=lambda o: o[0])
    return ops


def rollback_reentry_scenario(res, how, fail_on, T):
    """Async engine: a transition exits and re-enters the invoking state and then fails deeper in the
    same transition (a spawn factory yielding no machine).  After the rollback the state is active
    once, so exactly one service instance may be alive for it and exactly one completion may be
    processed when it returns."""
    calls = {"n": 0}
    log = []
    kid = create_machine({"id": "kid", "initial": "a", "states": {"a": {}}}, logic=MachineLogic())

    def factory(i, c, e):
        calls["n"] += 1
        return None if calls["n"] == fail_on else kid
    live = {"n": 0, "started": 0}

    async def svc(i, c, e):
        live["n"] += 1
        live["started"] += 1
        k = live["started"]
        try:
            await asyncio.sleep(T / 1e3)
            return k
        finally:
            live["n"] -= 1
    w = {"initial": "c", "invoke": {"src": "svc", "id": "job", "onDone": {"actions": ["done"]}},
         "on": {"SELF": {"target": "w", "reenter": True}},
         "states": {"c": {"entry": [{"type": "spawn_kidm"}],
                          "on": {"UP": {"target": "#m.w", "reenter": True}}}}}
    cfg = {"id": "m", "initial": "w", "states": {"w": w}}
    machine = create_machine(cfg, logic=MachineLogic(
        actions={"done": lambda i, c, e, a: log.append(("done", getattr(e, "data", None)))},
        services={"svc": svc, "kidm": factory}))
    ev = {"self": "SELF", "up": "UP"}[how]
    out = {}

    async def body():
        it = Interpreter(machine)
        await it.start()
        await drain(it, max_yields=200)
        for _ in range(fail_on - 2):
            await it.send(ev)
            await drain(it, max_yields=200)
        n0 = len(log)
        await it.send(ev)                 # this one fails after the re-entry
        await drain(it, max_yields=200)
        out["live"] = live["n"]
        await asyncio.sleep(3 * T / 1e3)
        out["done"] = log[n0:]
        await it.stop()
        await asyncio.sleep(0.001)
        out["live_after_stop"] = live["n"]
    run_virtual(body)
    res.evaluations += 1
    res.count("rollback-reentry.scenarios")
    res.hashes.add(h(["rollback-reentry", how, fail_on, T]))
    wit = {"event": ev, "spawn_factory_fails_on_call": fail_on, "config": cfg, "observed": out}
    if out.get("live") != 1:
        res.violation("C09:service-instances-alive-for-one-activation/%s/async" % how,
                      "%s live instances of the service after the rolled-back re-entry" % out.get("live"), wit)
    elif len(out.get("done", [])) != 1:
        res.violation("C09:completion-processed-%d-times/%s/async" % (len(out.get("done", [])), how),
                      "completions processed after the rolled-back re-entry: %s" % (out.get("done"),), wit)
    if out.get("live_after_stop"):
        res.violation("C09:service-alive-after-stop/%s/async" % how, "%d" % out["live_after_stop"], wit)


def slow_cancel_scenario(res, turns, how):
    """Async engine: a service whose cancellation needs several loop turns to unwind (awaited cleanup
    in `finally`).  Once its state has been exited - i.e. by the time the next state's entry action
    runs - and once stop() has returned, it must not be alive any more."""
    live = {"n": 0}
    seen = {}

    async def svc(i, c, e):
        live["n"] += 1
        try:
            await asyncio.sleep(1000)
        finally:
            for _ in range(turns):
                await asyncio.sleep(0)
            live["n"] -= 1

    def enter_o(i, c, e, a):
        seen["at-entry-of-next-state"] = live["n"]
    cfg = {"id": "m", "initial": "idle", "states": {
        "idle": {"on": {"GO": "w"}},
        "w": {"invoke": {"src": "svc", "id": "job"}, "on": {"LEAVE": "o", "SELF": {"target": "w", "reenter": True}}},
        "o": {"entry": ["enter_o"], "on": {"BACK": "w"}}}}
    machine = create_machine(cfg, logic=MachineLogic(actions={"enter_o": enter_o}, services={"svc": svc}))

    async def body():
        it = Interpreter(machine)
        await it.start()
        await it.send("GO")
        await asyncio.sleep(0.002)
        if how == "leave":
            await it.send("LEAVE")
            await asyncio.sleep(0.002)
            seen["after-exit-settled"] = live["n"]
        elif how == "reenter":
            await it.send("SELF")
            await asyncio.sleep(0.002)
            seen["after-reentry-settled"] = live["n"] - 1      # the new activation's own service
        await it.stop()
        seen["after-stop"] = live["n"]
        await asyncio.sleep(0.01)
        seen["later"] = live["n"]
    run_virtual(body)
    res.evaluations += 1
    res.count("slow-cancel.scenarios")
    res.hashes.add(h(["slow-cancel", turns, how]))
    for k, v in seen.items():
        if v:
            res.violation("C09:service-alive-%s/multi-turn-cancellation/async" % k,
                          "%d instance(s) of the exited state's service still alive %s (its cancellation "
                          "takes %d loop turns)" % (v, k.replace("-", " "), turns),
                          {"config": cfg, "how": how, "turns": turns, "observed": seen})
            break


def same_invoke_id_two_states(res, engine, order):
    """Two states invoke under the same explicit id; only one declares onError.  Each failure is
    judged by the state that owns it: handled -> onError taken, unhandled -> status error."""
    def bad(i, c, e):
        raise ServiceBoom("x")
    handled = {"invoke": {"src": "bad", "id": "job", "onError": {"target": "rest", "actions": ["caught"]}}}
    unhandled = {"invoke": {"src": "bad", "id": "job"}}
    log = []
    first, second = (handled, unhandled) if order == "handled-first" else (unhandled, handled)
    cfg = {"id": "m", "initial": "idle", "states": {
        "idle": {"on": {"GO": "a"}}, "a": first, "rest": {"on": {"NEXT": "b"}}, "b": second, }}
    if order != "handled-first":
        # the unhandled one first would end the machine: reach the handled one first through a detour
        cfg["states"]["idle"]["on"]["GO"] = "b"
        cfg["states"]["rest"]["on"]["NEXT"] = "a"
    machine = create_machine(cfg, logic=MachineLogic(actions={"caught": lambda i, c, e, a: log.append("caught")},
                                                     services={"bad": bad}))
    out = {}
    if engine == "sync":
        it = SyncInterpreter(machine).start()
        it.send("GO")
        out["s1"] = (it.status, sorted(config_of(it)))
        it.send("NEXT")
        out["s2"] = (it.status, sorted(config_of(it)))
        it.stop()
    else:
        async def body():
            it = Interpreter(machine)
            await it.start()
            await it.send("GO")
            await asyncio.sleep(0.005)
            out["s1"] = (it.status, sorted(config_of(it)))
            await it.send("NEXT")
            await asyncio.sleep(0.005)
            out["s2"] = (it.status, sorted(config_of(it)))
            await it.stop()
        run_virtual(body)
    res.evaluations += 1
    res.count("same-invoke-id.scenarios." + engine)
    res.hashes.add(h(["same-id", engine, order]))
    wit = {"engine": engine, "order": order, "config": cfg, "observed": out, "onError_ran": log}
    # the state visited first is the handled one in both orders (GO leads to it)
    if out["s1"][0] != "running" or log != ["caught"]:
        res.violation("C09:declared-onError-not-taken/same-invoke-id/%s" % engine,
                      "the failure of the state that declares onError: status %s, handler ran %s" % (
                          out["s1"][0], log), wit)
    elif out["s2"][0] != "error":
        res.violation("C09:unhandled-failure-did-not-fail-the-machine/same-invoke-id/%s" % engine,
                      "a service failed in a state without onError (same invoke id as a state that has one): "
                      "status %s" % out["s2"][0], wit)


def late_result_same_id_scenario(res, engine, outcome):
    """States `a` and `b` invoke under ONE explicit id.  a's result (or failure) is already queued
    when the event that leaves `a` for `b` is processed, so it is dequeued while b's own, unfinished
    invocation of that id is the live one: it belongs to an activation that is over and must not
    drive b's onDone/onError; b's own outcome still must."""
    seen = []

    def rec(tag):
        return lambda i, c, e, a: seen.append((tag, getattr(e, "data", None) if outcome == "ret" else "err"))
    handlers = lambda tag, to: ({"onDone": {"target": to, "actions": [tag]}} if outcome == "ret" else  # noqa: E731
                                {"onError": {"target": to, "actions": [tag]}})
    out = {}
    if engine == "async":
        async def body():
            hold_gate, a_gate, b_gate = asyncio.Event(), asyncio.Event(), asyncio.Event()

            async def svc_a(i, c, e):
                await a_gate.wait()
                if outcome != "ret":
                    raise ServiceBoom("a")
                return "result-of-a"

            async def svc_b(i, c, e):
                await b_gate.wait()
                if outcome != "ret":
                    raise ServiceBoom("b")
                return "result-of-b"

            async def hold(i, c, e, a):
                await hold_gate.wait()
            cfg = {"id": "m", "initial": "a", "states": {
                "a": dict({"invoke": dict({"id": "job", "src": "svc_a"}, **handlers("rec_a", "a_done"))},
                          on={"HOLD": {"actions": ["hold"]}, "NEXT": "b"}),
                "b": {"invoke": dict({"id": "job", "src": "svc_b"}, **handlers("rec_b", "b_done"))},
                "a_done": {}, "b_done": {}}}
            out["cfg"] = cfg
            it = Interpreter(create_machine(cfg, logic=MachineLogic(
                actions={"hold": hold, "rec_a": rec("a"), "rec_b": rec("b")},
                services={"svc_a": svc_a, "svc_b": svc_b})))
            await it.start()
            try:
                for _ in range(5):
                    await asyncio.sleep(0)
                await it.send("HOLD")           # the run loop is now inside a slow action
                for _ in range(5):
                    await asyncio.sleep(0)
                await it.send("NEXT")           # queued behind it
                a_gate.set()                    # a's outcome is queued behind NEXT
                for _ in range(5):
                    await asyncio.sleep(0)
                hold_gate.set()
                for _ in range(60):
                    await asyncio.sleep(0)
                out["mid"] = (sorted(config_of(it)), list(seen), it.status)
                b_gate.set()
                for _ in range(60):
                    await asyncio.sleep(0)
                out["end"] = (sorted(config_of(it)), list(seen), it.status)
            finally:
                hold_gate.set(), a_gate.set(), b_gate.set()
                await it.stop()
        run_virtual(body)
    else:
        def svc_a(i, c, e):
            if outcome != "ret":
                raise ServiceBoom("a")
            return "result-of-a"
        kid = create_machine({"id": "kid", "initial": "w", "states": {
            "w": {"on": {"FIN": "f"}}, "f": {"type": "final", "output": "result-of-b"}}}, logic=MachineLogic())
        cfg = {"id": "m", "initial": "idle", "states": {
            "idle": {"on": {"GO": "a"}},
            "a": dict({"invoke": dict({"id": "job", "src": "svc_a"}, **handlers("rec_a", "a_done"))},
                      on={"NEXT": "b"}),
            "b": {"invoke": {"id": "job", "src": "kid", "onDone": {"target": "b_done", "actions": ["rec_b"]}},
                  "on": {"FINISH": {"actions": [{"type": "xstate.sendTo", "params": {"to": "job", "event": "FIN"}}]}}},
            "a_done": {}, "b_done": {}}}
        out["cfg"] = cfg
        it = SyncInterpreter(create_machine(cfg, logic=MachineLogic(
            actions={"rec_a": rec("a"), "rec_b": lambda i, c, e, a: seen.append(("b", getattr(e, "data", None)))},
            services={"svc_a": svc_a, "kid": kid}))).start()
        try:
            # the service runs inline when `a` is entered: its outcome queues up BEHIND `NEXT`
            it.send_events(["GO", "NEXT"])
            t0 = time.time()
            while time.time() - t0 < 1.0 and not any(
                    getattr(x, "status", "") == "running" for x in it._actors.values()):
                time.sleep(0.005)
            out["mid"] = (sorted(config_of(it)), list(seen), it.status)
            it.send("FINISH")
            t0 = time.time()
            while time.time() - t0 < 6.0 and not seen and "m.b_done" not in config_of(it):
                time.sleep(0.005)
            out["end"] = (sorted(config_of(it)), list(seen), it.status)
        finally:
            it.stop()
    res.evaluations += 1
    res.count("late-result-same-id.scenarios.%s.%s" % (engine, outcome))
    res.hashes.add(h(["late-same-id", engine, outcome]))
    wit = {"engine": engine, "outcome": outcome, "config": out.get("cfg"), "mid": out.get("mid"),
           "end": out.get("end")}
    mid, end = out.get("mid"), out.get("end")
    if mid is None or end is None:
        res.count("late-result-same-id.not-run")
        return
    if mid[0] != ["m", "m.b"] or mid[1] or mid[2] != "running":
        res.violation("C09:result-of-exited-activation-drove-another-state/same-invoke-id/%s" % engine,
                      "after a -> b with a's %s queued behind the leaving event: configuration %s, handlers %s, "
                      "status %s" % ("result" if outcome == "ret" else "failure", mid[0], mid[1], mid[2]), wit)
        return
    want = [("b", "result-of-b")] if (outcome == "ret" or engine == "sync") else [("b", "err")]
    got = [t for t, _ in end[1]] if engine == "sync" else end[1]     # (a child machine's done data: C10)
    if engine == "sync":
        want = ["b"]
    if end[0] != ["m", "m.b_done"] or got != want:
        res.violation("C09:own-outcome-lost-after-a-stale-one/same-invoke-id/%s" % engine,
                      "b's own outcome: configuration %s, handlers %s (expected %s)" % (end[0], end[1], want), wit)


def prefix_named_region_service(res, short, long_):
    """(async) Two sibling regions whose names extend one another, the longer one running a slow
    service: re-entering only the SHORTER-named region must not touch that service."""
    out = {}

    async def body():
        gate = asyncio.Event()
        started, cancelled = [], []

        async def slow(i, c, e):
            started.append(1)
            try:
                await gate.wait()
            except asyncio.CancelledError:
                cancelled.append(1)
                raise
            return "late"
        cfg = {"id": "m", "type": "parallel", "states": {
            short: {"initial": "x", "states": {"x": {"on": {"AGAIN": {"target": "#m.%s" % short, "reenter": True}}}},
                    "on": {"RESTART": {"target": "#m.%s" % short, "reenter": True}}},
            long_: {"initial": "checking", "states": {
                "checking": {"invoke": {"src": "slow", "id": "chk", "onDone": "ok"}}, "ok": {}}}}}
        out["cfg"] = cfg
        it = Interpreter(create_machine(cfg, logic=MachineLogic(services={"slow": slow})))
        await it.start()
        for _ in range(5):
            await asyncio.sleep(0)
        await it.send("RESTART")
        await drain(it)
        await it.send("AGAIN")
        await drain(it)
        for _ in range(10):
            await asyncio.sleep(0)
        out["cancelled"] = len(cancelled)
        out["started"] = len(started)
        gate.set()
        for _ in range(40):
            await asyncio.sleep(0)
        await drain(it)
        out["cfg_end"] = sorted(config_of(it))
        await it.stop()
    run_virtual(body)
    res.evaluations += 1
    res.count("prefix-named-region-service.scenarios")
    res.hashes.add(h(["prefix-svc", short, long_]))
    wit = {"regions": [short, long_], "config": out.get("cfg"), "observed": {k: v for k, v in out.items() if k != "cfg"}}
    if out.get("started") != 1 or out.get("cancelled"):
        res.violation("C09:service-of-a-prefix-named-sibling-region-cancelled-or-restarted",
                      "regions %r and %r: service of the untouched region started %s time(s), cancelled %s" % (
                          short, long_, out.get("started"), out.get("cancelled")), wit)
    elif "m.%s.ok" % long_ not in out.get("cfg_end", []):
        res.violation("C09:completion-of-a-prefix-named-sibling-region-lost",
                      "the untouched region's service completed but its onDone was not taken: %s" % out.get("cfg_end"),
                      wit)


def run_chunk(spec):
    observe.quiet_logs()
    res = Result()
    tier, ci = spec["tier"], spec["chunk"]
    wd = Watchdog(res, 400.0)
    rng = rng_for(spec["seed"], ID, ci, "scripts")
    jobs = []
    T = 8
    outcome_sets = [[(T, "ret")], [(T, "raise")], [(T, "ret"), (3, "raise"), (T, "ret")],
                    [(T, "raise"), (T, "ret")], [(2, "ret"), (T + 5, "ret")]]
    for kind in ("plain", "coro", "awaitable", "machine", "machineslow"):
        for with_on_error in (True, False):
            for plans in outcome_sets:
                if kind.startswith("machine") and (plans[0][1] != "ret" or len(plans) > 1):
                    continue
                for name, script in scripts_for({"plain": 3, "machineslow": 4}.get(kind, T)):
                    jobs.append(("async", kind, with_on_error, plans, script, name))
    nrand = 30 if tier == "quick" else 20000
    for j in range(nrand * NCHUNKS):
        kind = ("plain", "coro", "awaitable", "machine", "machineslow", "coro")[j % 6]
        plans = [(rng.choice([1, 3, T, T + 4]), rng.choice(["ret", "ret", "raise"])) for _ in range(4)]
        if kind.startswith("machine"):
            plans = [(rng.choice([3, T]), "ret")]
        jobs.append(("async", kind, j % 3 != 0, plans, None, "random"))
    # sync engine
    for kind in ("plain", "machine"):
        for with_on_error in (True, False):
            for plans in ([(0, "ret")], [(0, "raise")], [(0, "ret"), (0, "raise"), (0, "ret")]):
                if kind == "machine":
                    plans = [(15, "ret")]
                for name, script in scripts_for(12 if kind == "machine" else 3):
                    if kind == "plain" and "@" in name and not name.endswith("@+0"):
                        continue
                    jobs.append(("sync", kind, with_on_error, plans, script, name))
                if kind == "machine":
                    break
    n = 0
    for ji, (eng, kind, woe, plans, script, name) in enumerate(jobs):
        if ji % NCHUNKS != ci:
            continue
        wd.arm("job=%d %s %s" % (ji, kind, name))
        if script is None:
            script = random_script(rng, plans[0][0] if plans[0][0] > 1 else 4)
        wit = {"engine": eng, "src": kind, "with_on_error": woe, "plans": plans, "script": script,
               "scenario": name}
        if eng == "async":
            run_async(res, kind, woe, plans, script, wit)
        else:
            run_sync(res, kind, woe, plans, script, wit)
        if any(o[1] == "send" and o[2]["type"] in ("LEAVE", "SELF") for o in script):
            res.count("schedules.with-leave-or-reentry")
        if n < 1 and ci == 0:
            res.sample(wit)
            n += 1
    k = 0
    for turns in (2, 5):
        for how in ("leave", "reenter", "stop"):
            if k % NCHUNKS == ci:
                wd.arm("slow cancel %d %s" % (turns, how))
                slow_cancel_scenario(res, turns, how)
            k += 1
    for engine in ("sync", "async"):
        for order in ("handled-first", "detour"):
            if k % NCHUNKS == ci:
                wd.arm("same invoke id %s" % engine)
                same_invoke_id_two_states(res, engine, order)
            k += 1
    for engine in ("sync", "async"):
        for outcome in ("ret", "raise"):
            if k % NCHUNKS == ci:
                wd.arm("late result same id %s" % engine)
                late_result_same_id_scenario(res, engine, outcome)
            k += 1
    for short, long_ in (("sync", "sync_status"), ("io", "io2"), ("net", "net-x"), ("a", "ab")):
        if k % NCHUNKS == ci:
            wd.arm("prefix named region service")
            prefix_named_region_service(res, short, long_)
        k += 1
    for how in ("self", "up"):
        for fail_on in (2, 3, 4):
            for T in (3, 8):
                if k % NCHUNKS == ci:
                    wd.arm("rollback re-entry %s %d" % (how, fail_on))
                    rollback_reentry_scenario(res, how, fail_on, T)
                k += 1
    wd.disarm()
    return res.to_json()


def quota(counters, tier):
    out = []
    for k in ("schedules.async", "schedules.sync", "service-calls", "handler-firings",
              "schedules.kind.plain", "schedules.kind.coro", "schedules.kind.machine",
              "schedules.kind.machineslow", "schedules.kind.awaitable", "rollback-reentry.scenarios", "slow-cancel.scenarios", "same-invoke-id.scenarios.sync",
              "same-invoke-id.scenarios.async", "late-result-same-id.scenarios.sync.ret",
              "late-result-same-id.scenarios.async.ret", "late-result-same-id.scenarios.async.raise",
              "prefix-named-region-service.scenarios",
              "unhandled-failures", "census.after-exit", "schedules.with-leave-or-reentry"):
        if counters.get(k, 0) == 0:
            out.append("monitor-never-reached:" + k)
    return out
