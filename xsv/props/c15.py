"""C15 — actor messaging and supervision are exact.

A 60-line shadow model of {children maps, system registry, pending delayed sends}
is updated from the command script; the real actor tree is driven by the same
commands and compared after every command: registrations, exactly-once delivery
to the modelled addressee (unique message numbers), warnings for unresolved /
ambiguous targets, cancel, stopChild / stop() teardown and silence afterwards.
"""
from __future__ import annotations

import asyncio
import logging
import sys
import threading
import time

from .. import observe
from ..observe import (Event, Interpreter, LogCapture, MachineLogic, PluginBase, SyncInterpreter,
                       create_machine, drain, run_virtual)
from .common import Result, Watchdog, h, rng_for

ID = "C15"
LEVEL = "exploration"
TECHNIQUE = ("runtime monitoring against an executable shadow model: random command scripts "
             "(spawnChild / spawn_<svc> / sendTo / sendParent / forwardTo / escalate / cancel / "
             "stopChild / stop, ids, systemIds, service keys, callables and interpreter objects as "
             "targets, delays around cancel and stop) drive a real actor tree; per-actor receive "
             "logs with unique message numbers are compared with the model after every command")
LEVEL_TEXT = ("every command of every script is checked against the shadow model (children maps, "
              "registry, deliveries, warnings, teardown); held on the scripts explored")
LEVEL_NOTE = ("trusted: the shadow model (resolution order systemId > child id > unique service "
              "key, as documented), unique message numbers, harness-built child machines that log "
              "(receiver, k)")
RULE = ("actor trees of depth<=3 and fan-out<=3 built by scripts of 8-30 commands, reused ids, "
        "delays on a grid around cancel/stop; sync+async; one evaluation = one command checked; "
        "non-trivial = command on a tree with >=2 live actors; distinct = hash(script prefix, engine)")
ASSUMPTIONS = ["sync non-blocking actors run in their own threads: the harness waits for them to "
               "be started before the next command",
               "addressing a child by a name that is also a segment of deeper descendants' ids is "
               "not generated (ids are globally unique in a script)"]
NCHUNKS = 16


def chunks(tier, seed):
    return [{"name": f"C15-{tier}-{i}", "prop": ID, "tier": tier, "seed": seed, "chunk": i,
             "timeout": 900 if tier == "quick" else 3000} for i in range(NCHUNKS)]


# ---------------------------------------------------------------------------
# the actor machine (used for the root and every child)
# ---------------------------------------------------------------------------
def build_node(log, clock, holder, tick_ms=0):
    def P(fn):
        return lambda a: fn(a["event"].payload)

    def logmsg(interp, ctx, event, a):
        log.append((clock(), "recv", interp.id, event.type, event.payload.get("k"), id(interp)))

    def hello(interp, ctx, event, a):
        holder.setdefault("interps", {})[id(interp)] = interp
        ctx["me"] = id(interp)
        log.append((clock(), "born", interp.id, None, None, id(interp)))

    def is_exec(ctx, event):
        # only the actor the harness addressed executes the command; the actor the event is
        # forwarded to merely logs it
        return event.payload.get("exec") == ctx.get("me")
    on = {
        "SPAWN": {"actions": [{"type": "xstate.spawnChild", "params": P(lambda p: {
            "src": "node", "id": p.get("id"), "systemId": p.get("systemId"), "input": p.get("input")})}]},
        "SPAWNSVC": {"actions": [{"type": "spawn_node", "params": {"id": None}}]},
        "SENDTO": {"actions": [{"type": "xstate.sendTo", "params": P(lambda p: {
            "to": holder["targets"].get(p["to"], p["to"]) if isinstance(p["to"], str) and p["to"].startswith("@")
            else p["to"],
            "event": {"type": "MSG", "k": p["k"]}, "delay": p.get("delay"), "id": p.get("sendId")})}]},
        "SENDPARENT": {"actions": [{"type": "xstate.sendParent", "params": P(lambda p: {
            "event": {"type": "MSG", "k": p["k"]}, "delay": p.get("delay"), "id": p.get("sendId")})}]},
        "FWDMSG": [{"guard": "is_exec", "actions": [{"type": "xstate.forwardTo", "params": P(
            lambda p: {"to": p["to"]})}]},
            {"actions": ["logmsg"]}],
        "MSG": {"actions": ["logmsg"]},
        "CANCEL": {"actions": [{"type": "xstate.cancel", "params": P(lambda p: {"sendId": p["sendId"]})}]},
        "STOPCHILD": {"actions": [{"type": "xstate.stopChild", "params": P(lambda p: {"id": p["id"]})}]},
        "ESC": {"actions": [{"type": "xstate.escalate", "params": P(lambda p: {"error": p["k"]})}]},
    }
    on["BURST"] = {"actions": [{"type": "xstate.sendTo", "params": P(lambda p, i=i: {
        "to": p["to"], "event": {"type": "MSG", "k": p["k"] + i}})} for i in range(3)]}
    on["FINISH"] = {"target": "#node.f"}

    def tick(interp, ctx, event, a):
        log.append((clock(), "tick", interp.id, None, None, id(interp)))
    if tick_ms:
        # a heartbeat: whatever is still alive keeps writing to the log
        states = {"s": {"after": {tick_ms: "s2"}}, "s2": {"entry": ["tick"], "after": {tick_ms: "s"}},
                  "f": {"type": "final"}}
    else:
        states = {"s": {}, "f": {"type": "final"}}
    cfg = {"id": "node", "initial": "s", "context": {}, "entry": ["hello"], "on": on, "states": states}
    logic = MachineLogic(actions={"logmsg": logmsg, "hello": hello, "tick": tick}, guards={"is_exec": is_exec},
                         services={})
    machine = create_machine(cfg, logic=logic)
    logic.services["node"] = machine          # children run the same machine
    return machine


class RootPlugin(PluginBase):
    def __init__(self, log, clock):
        self.log, self.clock = log, clock

    def on_event_received(self, interp, event):
        if event.type.startswith("xstate.error.actor."):
            self.log.append((self.clock(), "esc", interp.id, event.type,
                             (event.payload or {}).get("error"), id(interp)))


# ---------------------------------------------------------------------------
# shadow model
# ---------------------------------------------------------------------------
class MActor:
    def __init__(self, aid, parent, key="node", explicit=None, system_id=None):
        self.id, self.parent, self.key, self.explicit, self.system_id = aid, parent, key, explicit, system_id
        self.children = []     # live MActors in spawn order
        self.alive = True
        self.pending = {}      # sendId -> entry
        self.real = None

    def depth(self):
        return 0 if self.parent is None else 1 + self.parent.depth()


class Model:
    def __init__(self):
        self.root = MActor("node", None)
        self.registry = {}
        self.expected = []     # (receiver MActor, k)
        self.timed = []        # pending delayed deliveries: dict(t, target, k, sender, sendId, live)
        self.warn = 0
        self.bursts = []       # (receiver, first k): three messages sent by one action list

    #: real-time engine only: a delayed send whose due time is this close to the moment it is
    #: cancelled / its sender or target is stopped may legitimately go either way
    window = 0.0
    now = 0.0

    def _maybe_uncertain(self, e):
        # real-time engine: the timer was started somewhere between the moment the command was sent
        # (e["t"]) and the moment the harness saw it settled (e["t_hi"]); unless it is certainly still
        # in the future, whether it fired before this cancel/stop is not known
        if self.window and e["t"] - self.now < self.window:
            e["uncertain"] = True

    def live(self):
        out = []

        def walk(a):
            if a.alive:
                out.append(a)
                for c in a.children:
                    walk(c)
        walk(self.root)
        return out

    def resolve(self, actor, spec):
        """documented order: systemId, then own child by id, then unique service key"""
        if isinstance(spec, MActor):
            return spec, None
        if spec in self.registry and self.registry[spec].alive:
            return self.registry[spec], None
        kids = [c for c in actor.children if c.alive]
        for c in kids:
            if c.id == spec or c.explicit == spec:
                return c, None
        by_key = [c for c in kids if c.key == spec]
        if len(by_key) == 1:
            return by_key[0], None
        if len(by_key) > 1:
            return None, "ambiguous"
        if spec in ("parent", "#parent") and actor.parent is not None:
            return actor.parent, None
        return None, "unresolved"

    def kill(self, a):
        a.alive = False
        for sid, m in list(self.registry.items()):
            if m is a:
                del self.registry[sid]
        for e in self.timed:
            if e["sender"] is a and e["live"] and not e.get("done"):
                e["live"] = False      # stop() releases the sender's pending sends
                self._maybe_uncertain(e)
        for c in list(a.children):
            self.kill(c)
        if a.parent is not None and a in a.parent.children:
            a.parent.children.remove(a)


# ---------------------------------------------------------------------------
# script generation (commands reference model actors by index into model.live())
# ---------------------------------------------------------------------------
def gen_script(rng, n):
    script = []
    flavour = rng.choice(["mixed", "mixed", "sends", "tree"])
    if flavour == "sends":
        # one actor keeps sending under few send ids: supersede / cancel / wait in every order
        script.append(("SPAWN", True, rng.random() < 0.5, False))
        for _ in range(n):
            r = rng.random()
            if r < 0.5:
                script.append(("SENDTO", rng.choice(["id", "parent", "key", "system"]), rng.choice([4, 9, 14]), True))
            elif r < 0.7:
                script.append(("CANCEL", True))
            elif r < 0.8:
                script.append(("BURST", rng.choice(["id", "key", "parent"])))
            else:
                script.append(("WAIT", rng.choice([1, 3, 5, 8, 12])))
        return [("FLAVOUR", "sends")] + script
    if flavour == "tree":
        # deep trees, then stop / finish inner actors
        for _ in range(n):
            r = rng.random()
            if r < 0.5:
                script.append(("SPAWN", rng.random() < 0.75, rng.random() < 0.5, rng.random() < 0.2))
            elif r < 0.6:
                script.append(("SENDTO", rng.choice(["id", "system", "parent"]), rng.choice([None, 9, 14]), False))
            elif r < 0.7:
                script.append(("SENDPARENT", rng.choice([None, 6])))
            elif r < 0.85:
                script.append(("STOPCHILD", rng.choice(["id", "system"])))
            else:
                script.append(("WAIT", rng.choice([3, 8, 12])))
        return [("FLAVOUR", "tree")] + script
    for _ in range(n):
        r = rng.random()
        if r < 0.04:
            script.append(("BURST", rng.choice(["id", "key", "parent", "system"])))
        elif r < 0.22:
            script.append(("SPAWN", rng.random() < 0.75, rng.random() < 0.4, rng.random() < 0.12))
        elif r < 0.27:
            script.append(("SPAWNSVC",))
        elif r < 0.55:
            script.append(("SENDTO", rng.choice(["id", "id", "system", "key", "callable", "object", "bogus", "parent"]),
                           rng.choice([None, None, 4, 9, 14]), rng.random() < 0.5))
        elif r < 0.63:
            script.append(("SENDPARENT", rng.choice([None, None, 6])))
        elif r < 0.69:
            script.append(("FWDMSG", rng.choice(["id", "key", "bogus"])))
        elif r < 0.75:
            script.append(("CANCEL", rng.random() < 0.8))
        elif r < 0.84:
            script.append(("STOPCHILD", rng.choice(["id", "id", "system", "bogus"])))
        elif r < 0.88:
            script.append(("ESC",))
        else:
            script.append(("WAIT", rng.choice([1, 3, 5, 8, 12])))
    return script


class Driver:
    """Executes a script against the real tree and the model, step by step."""

    def __init__(self, res, engine, rng, script, idx):
        self.res, self.engine, self.rng, self.script, self.idx = res, engine, rng, script, idx
        self.model = Model()
        self.log = []
        self.holder = {"targets": {}, "interps": {}}
        self.k = 0
        self.idc = 0
        self.sendc = 0
        self.bad = None
        self.now = 0.0
        self.t_send = 0.0       # when the current command was handed to the engine
        self.scale = 1          # real-time engine stretches the delays
        self.margin = 0.0       # real-time engine: a send counts as due only this long after its time
        self.warned = 0
        self.flavour = "mixed"
        if script and script[0][0] == "FLAVOUR":
            self.flavour = script[0][1]
        self.max_depth = 3 if self.flavour == "tree" else 2

    def v(self, key, what):
        if self.bad is None:
            self.bad = (key + "/" + self.engine, what)

    sticky = None

    def pick_actor(self):
        live = self.model.live()
        if self.flavour == "sends":
            # the same non-root actor executes most commands
            if self.sticky is None or not self.sticky.alive:
                kids = [a for a in live if a.parent is not None]
                self.sticky = self.rng.choice(kids) if kids else None
            if self.sticky is not None and self.rng.random() < 0.85:
                return self.sticky
        if self.flavour == "tree":
            deep = [a for a in live if a.depth() == max(x.depth() for x in live)]
            if self.rng.random() < 0.5:
                return self.rng.choice(deep)
        # prefer shallow actors so trees stay within depth 3
        cands = [a for a in live if a.depth() < 2] or live
        return self.rng.choice(live if self.rng.random() < 0.5 else cands)

    def plan(self, cmd):
        """-> (executing MActor, real event payload, model update closure) or None"""
        m = self.model
        kind = cmd[0]
        a = self.pick_actor()
        if kind in ("SPAWN", "SPAWNSVC"):
            if a.depth() >= self.max_depth or len([c for c in a.children if c.alive]) >= 3:
                a = m.root if len([c for c in m.root.children if c.alive]) < 3 else None
                if a is None:
                    return None
            if kind == "SPAWNSVC":
                def upd(a=a):
                    c = MActor(None, a)
                    a.children.append(c)
                    return c
                return a, "SPAWNSVC", {}, upd
            explicit, with_sys, reuse = cmd[1], cmd[2], cmd[3]
            eid = None
            if explicit:
                kids = [c for c in a.children if c.alive and c.explicit]
                if reuse and kids:
                    eid = self.rng.choice(kids).explicit
                else:
                    self.idc += 1
                    eid = "k%d" % self.idc
            sysid = None
            if with_sys:
                live_sys = sorted(s_ for s_, x in m.registry.items() if x.alive)
                if live_sys and self.rng.random() < 0.3:
                    # a systemId that is already taken: the newer actor takes the name over, the
                    # older one stays alive (and must not take the name with it when it stops)
                    sysid = self.rng.choice(live_sys)
                    self.res.count("spawns.systemId-taken-over")
                else:
                    self.idc += 1
                    sysid = "sys%d" % self.idc
            payload = {"id": eid, "systemId": sysid, "input": {"n": self.idc}}

            def upd(a=a, eid=eid, sysid=sysid):
                if eid:
                    for c in list(a.children):
                        if c.alive and c.explicit == eid:
                            m.kill(c)          # the id is reused: the old actor is stopped first
                c = MActor("%s:%s" % (a.id, eid) if eid else None, a, explicit=eid, system_id=sysid)
                a.children.append(c)
                if sysid:
                    m.registry[sysid] = c
                return c
            return a, "SPAWN", payload, upd
        if kind == "FLAVOUR":
            return None
        if kind in ("SENDTO", "FWDMSG", "BURST"):
            how = cmd[1]
            kids = [c for c in a.children if c.alive]
            target_spec, mt = None, None
            if how == "id" and kids:
                c = self.rng.choice(kids)
                if c.explicit:
                    target_spec, mt = c.explicit, c
                else:
                    how = "key"
            if how == "system":
                live_sys = [s for s, x in m.registry.items() if x.alive]
                if live_sys:
                    target_spec = self.rng.choice(live_sys)
                    mt = m.registry[target_spec]
                else:
                    how = "bogus"
            if how == "key":
                target_spec = "node"
            if how == "callable" and kids and any(c.explicit for c in kids):
                c = self.rng.choice([c for c in kids if c.explicit])
                name = "@%d" % len(self.holder["targets"])
                self.holder["targets"][name] = (lambda args, _id=c.explicit: _id)
                target_spec, mt = name, c
            elif how == "callable":
                how = "bogus"
            if how == "object" and kids:
                c = self.rng.choice(kids)
                name = "@%d" % len(self.holder["targets"])
                self.holder["targets"][name] = c          # replaced by the real interpreter at run time
                target_spec, mt = name, c
            elif how == "object":
                how = "bogus"
            if how == "parent":
                target_spec = "parent"
            if how == "bogus" or target_spec is None:
                target_spec = "nobody%d" % self.rng.randint(0, 9)
            self.k += 1
            k = self.k
            if kind == "BURST":
                self.k += 2
                if target_spec.startswith("@"):
                    target_spec = "node"
                payload = {"to": target_spec, "k": k}

                def upd(a=a, spec=target_spec, k=k):
                    tgt, why = m.resolve(a, spec)
                    if tgt is None:
                        m.warn += 3
                        return ("dropped", why)
                    if tgt.alive:
                        for i in range(3):
                            m.expected.append((tgt, k + i, "MSG"))
                        m.bursts.append((tgt, k))
                    return ("sent", tgt)
                return a, "BURST", payload, upd
            if kind == "FWDMSG":
                payload = {"to": target_spec if not target_spec.startswith("@") else "node", "k": k, "exec": True}
                spec_for_model = payload["to"]
                delay, sid = None, None
            else:
                delay = cmd[2]
                sid = None
                if cmd[3] and delay:
                    self.sendc += 1
                    sid = "snd%d" % self.rng.randint(1, 3)     # ids are reused on purpose
                payload = {"to": target_spec, "k": k, "delay": delay, "sendId": sid}
                spec_for_model = mt if (target_spec.startswith("@") and mt is not None) else target_spec

            def upd(a=a, spec=spec_for_model, k=k, delay=delay, sid=sid, kind=kind):
                tgt, why = m.resolve(a, spec)
                if tgt is None:
                    m.warn += 1
                    return ("dropped", why)
                etype = "FWDMSG" if kind == "FWDMSG" else "MSG"
                if not delay:
                    if tgt.alive:
                        m.expected.append((tgt, k, etype))
                    return ("sent", tgt)
                if sid:
                    for e in m.timed:
                        if e["sender"] is a and e["sendId"] == sid and e["live"] and not e.get("done"):
                            e["live"] = False          # a reused send id supersedes the earlier send
                            m._maybe_uncertain(e)
                m.timed.append({"t": self.t_send + delay * self.scale / 1e3,
                                "t_hi": self.now + delay * self.scale / 1e3, "target": tgt, "k": k, "sender": a,
                                "sendId": sid, "live": True, "etype": etype})
                return ("scheduled", tgt)
            return a, kind, payload, upd
        if kind == "SENDPARENT":
            self.k += 1
            k = self.k
            delay = cmd[1]
            payload = {"k": k, "delay": delay}

            def upd(a=a, k=k, delay=delay):
                if a.parent is None:
                    m.warn += 1
                    return ("dropped", "no-parent")
                if not delay:
                    if a.parent.alive:
                        m.expected.append((a.parent, k, "MSG"))
                else:
                    m.timed.append({"t": self.t_send + delay * self.scale / 1e3,
                                    "t_hi": self.now + delay * self.scale / 1e3, "target": a.parent, "k": k, "sender": a,
                                    "sendId": None, "live": True, "etype": "MSG"})
                return ("sent", a.parent)
            return a, "SENDPARENT", payload, upd
        if kind == "CANCEL":
            senders = [e for e in m.timed if e["live"] and e["sendId"]]
            if cmd[1] and senders:
                e = self.rng.choice(senders)
                a, sid = e["sender"], e["sendId"]
            else:
                sid = "snd%d" % self.rng.randint(1, 3)
            if not a.alive:
                return None

            def upd(a=a, sid=sid):
                for e in m.timed:
                    if e["sender"] is a and e["sendId"] == sid and e["live"] and not e.get("done"):
                        e["live"] = False
                        m._maybe_uncertain(e)
                return ("cancel", sid)
            return a, "CANCEL", {"sendId": sid}, upd
        if kind == "STOPCHILD":
            how = cmd[1]
            kids = [c for c in a.children if c.alive]
            spec, mt = None, None
            if how == "id" and kids and any(c.explicit for c in kids):
                mt = self.rng.choice([c for c in kids if c.explicit])
                spec = mt.explicit
            elif how == "system":
                own = [c for c in kids if c.system_id and m.registry.get(c.system_id) is c]
                if own:
                    mt = self.rng.choice(own)
                    spec = mt.system_id
            if spec is None:
                spec = "nobody%d" % self.rng.randint(0, 9)

            def upd(a=a, spec=spec):
                tgt, why = m.resolve(a, spec)
                if tgt is None:
                    m.warn += 1
                    return ("dropped", why)
                m.kill(tgt)
                return ("stopped", tgt)
            return a, "STOPCHILD", {"id": spec}, upd
        if kind == "ESC":
            kids = [c for c in m.root.children if c.alive]
            if not kids:
                return None
            a = self.rng.choice(kids)
            self.k += 1
            k = self.k

            def upd(a=a, k=k):
                m.expected.append((m.root, k, "ESC:" + str(a.id)))
                return ("esc", a)
            return a, "ESC", {"k": k}, upd
        return None

    # -- comparison -----------------------------------------------------
    def compare(self, step, cmd):
        m = self.model
        res = self.res
        # 1. children maps and registry
        for a in m.live():
            if a.real is None:
                continue
            real_kids = dict(getattr(a.real, "_actors", {}))
            want = [c for c in a.children if c.alive]
            explicit_real = {k for k in real_kids if any(k == c.id for c in want if c.id)}
            for c in want:
                if c.id and c.id not in real_kids:
                    return self.v("C15:child-missing-from-children-map",
                                  "after %s: child %s is not in %s's children map %s" % (
                                      cmd[0], c.id, a.id, sorted(real_kids)))
            if len(real_kids) != len(want):
                return self.v("C15:children-map-size-wrong/%s" % cmd[0],
                              "after %s: %s has children %s, model says %d" % (
                                  cmd[0], a.id, sorted(real_kids), len(want)))
            for kid_id, kid in real_kids.items():
                if kid.status not in ("running",) and self.engine == "async":
                    return self.v("C15:registered-child-not-running",
                                  "child %s is %s while registered" % (kid_id, kid.status))
        root_real = m.root.real
        reg = root_real.system.get_all()
        if set(reg) != set(m.registry):
            return self.v("C15:system-registry-differs/%s" % cmd[0],
                          "after %s: registry has %s, model %s" % (cmd[0], sorted(reg), sorted(m.registry)))
        for sid, mact in m.registry.items():
            if mact.real is not None and reg[sid] is not mact.real:
                return self.v("C15:systemId-points-to-wrong-actor", "systemId %s -> %s, model says %s" % (
                    sid, reg[sid].id, mact.id))
        # 2. deliveries (exactly once, right addressee)
        got = {}
        for r in self.log:
            if r[1] in ("recv", "esc"):
                got.setdefault((r[3] if r[1] == "recv" else "ESC", r[4]), []).append(r[5])
        for (tgt, k, etype) in m.expected:
            res.count("deliveries.expected")
            key = (etype if not etype.startswith("ESC") else "ESC", k)
            lst = got.get(key, [])
            if tgt.real is None:
                continue
            if len(lst) != 1:
                return self.v("C15:message-received-%d-times/%s" % (len(lst), etype.split(":")[0]),
                              "message k=%s for %s was received %d times" % (k, tgt.id, len(lst)))
            if lst[0] != id(tgt.real):
                wrong = self.holder["interps"].get(lst[0])
                return self.v("C15:message-delivered-to-wrong-actor/%s" % etype.split(":")[0],
                              "message k=%s meant for %s was received by %s" % (
                                  k, tgt.id, getattr(wrong, "id", "?")))
        # 3. sending order: messages sent by one action list arrive in that order, and delayed
        #    messages for one receiver arrive in the order of their due times
        pos = {}
        for i, r in enumerate(self.log):
            if r[1] == "recv" and r[3] == "MSG":
                pos.setdefault(r[4], i)
        for tgt, k in m.bursts:
            ps = [pos.get(k + i) for i in range(3)]
            if None not in ps:
                res.count("order.bursts")
                if ps != sorted(ps):
                    return self.v("C15:burst-out-of-order", "messages %s sent in this order by one action "
                                  "list reached %s in log positions %s" % ([k, k + 1, k + 2], tgt.id, ps))
        per = {}
        for e in m.timed:
            if e.get("delivered_ok") and not e.get("uncertain") and e["etype"] == "MSG" and e["k"] in pos:
                per.setdefault(id(e["target"]), []).append(e)
        gap = max(self.margin, 1e-6)
        # (sync engine: every delayed send sleeps on a thread of its own, two of them are ordered by
        #  the operating system's scheduler only - judged in virtual time, i.e. on the async engine)
        for lst in (per.values() if self.engine == "async" else ()):
            lst.sort(key=lambda e: e["t"])
            for e1, e2 in zip(lst, lst[1:]):
                if e2["t"] - e1["t"] > gap:
                    res.count("order.timed-pairs")
                    if pos[e1["k"]] > pos[e2["k"]]:
                        return self.v("C15:delayed-sends-out-of-order", "k=%s (due %.4f) arrived after k=%s "
                                      "(due %.4f) at %s" % (e1["k"], e1["t"], e2["k"], e2["t"], e1["target"].id))
        exp_keys = {((e[2] if not e[2].startswith("ESC") else "ESC"), e[1]) for e in m.expected}
        for key, lst in got.items():
            if key not in exp_keys:
                # a delayed message whose time has not come in the model, or a dropped one
                pend = [e for e in m.timed if e["k"] == key[1]]
                if pend and pend[0].get("uncertain"):
                    continue
                if not pend or not pend[0].get("delivered_ok"):
                    who = self.holder["interps"].get(lst[0])
                    return self.v("C15:unexpected-delivery/%s" % key[0],
                                  "message k=%s was received by %s although the model says it is %s" % (
                                      key[1], getattr(who, "id", "?"),
                                      "cancelled/not due" if pend else "dropped"))
        return None

    def due(self):
        """model: deliver delayed sends whose time has come"""
        m = self.model
        for e in m.timed:
            if e["live"] and not e.get("done") and e.get("t_hi", e["t"]) <= self.now - self.margin + 1e-9:
                e["done"] = True
                if e["sender"].alive and e["target"].alive:
                    if not e.get("uncertain"):
                        m.expected.append((e["target"], e["k"], e["etype"]))
                    e["delivered_ok"] = True
                elif m.window:
                    e["uncertain"] = True     # the target died some time before the due time
        return None

    def bind_new(self, mact, parent_real):
        """find the real child that corresponds to a just-spawned model actor"""
        kids = getattr(parent_real, "_actors", {})
        if mact.id:
            mact.real = kids.get(mact.id)
        else:
            known = {id(c.real) for c in mact.parent.children if c is not mact and c.real is not None}
            new = [v_ for v_ in kids.values() if id(v_) not in known]
            if len(new) == 1:
                mact.real = new[0]
                mact.id = new[0].id
        if mact.real is None:
            self.v("C15:spawn-created-no-child", "after a spawn %s has children %s; expected a new "
                   "child%s" % (parent_real.id, sorted(kids), " with id " + mact.id if mact.id else ""))


def run_async(res, script, rng, idx):
    D = Driver(res, "async", rng, script, idx)

    async def body():
        loop = asyncio.get_event_loop()
        clock = loop.time
        machine = build_node(D.log, clock, D.holder, tick_ms=rng.choice([0, 0, 7]))
        root = Interpreter(machine)
        root.use(RootPlugin(D.log, clock))
        await root.start()
        D.model.root.real = root
        with LogCapture(logging.WARNING) as cap:
            for step, cmd in enumerate(script):
                D.now = clock()
                if cmd[0] == "WAIT":
                    await asyncio.sleep(cmd[1] / 1e3)
                    D.now = clock()
                    D.due()
                    await _settle_async(D)
                    D.compare(step, cmd)
                    if D.bad:
                        break
                    continue
                pl = D.plan(cmd)
                if pl is None:
                    continue
                a, etype, payload, upd = pl
                if a.real is None or a.real.status != "running":
                    continue
                payload = _materialise(D, payload)
                if "exec" in payload:
                    payload["exec"] = id(a.real)
                w0 = cap.count(logging.WARNING)
                D.t_send = D.now
                await a.real.send(Event(type=etype, payload=payload))
                await _settle_async(D)
                out = upd()
                if etype in ("SPAWN", "SPAWNSVC"):
                    D.bind_new(out, a.real)
                D.now = clock()
                D.due()
                res.evaluations += 1
                res.count("commands." + etype)
                if len(D.model.live()) >= 2:
                    res.hashes.add(h([idx, "async", step]))
                if isinstance(out, tuple) and out[0] == "dropped":
                    res.count("drops.expected")
                    if cap.count(logging.WARNING) == w0:
                        D.v("C15:dropped-without-warning/%s" % out[1],
                            "%s to an %s target was dropped silently (no WARNING record)" % (etype, out[1]))
                D.compare(step, cmd)
                if D.bad:
                    break
            if not D.bad:
                # teardown: stop the root, everything must be stopped, unregistered and silent
                for a in _finishers(D, rng):
                    # an inner actor completes on its own just before the root is stopped
                    await a.real.send(Event(type="FINISH", payload={}))
                    res.count("teardown.finished-inner-actor")
                await _settle_async(D)
                await root.stop()
                n0 = len(D.log)          # only what happens after stop() returned is judged
                await asyncio.sleep(0.05)
                _teardown_check(D, root, n0)
                left = [t for t in asyncio.all_tasks() if not t.done() and t is not asyncio.current_task()]
                if left:
                    D.v("C15:tasks-alive-after-root-stop", "%d tasks alive: %s" % (
                        len(left), [repr(t.get_coro())[:50] for t in left][:3]))
            else:
                await root.stop()
    run_virtual(body)
    _finish(res, D)


async def _settle_async(D):
    for it in list(D.holder["interps"].values()):
        if it.status == "running" and isinstance(it, Interpreter):
            await drain(it, max_yields=2000, settle=2)


def _finishers(D, rng):
    if rng.random() < 0.5:
        return []
    inner = [a for a in D.model.live() if a.parent is not None and a.real is not None
             and a.real.status == "running"]
    with_kids = [a for a in inner if any(c.alive for c in a.children)]
    pool = with_kids or inner
    rng.shuffle(pool)
    return pool[:2]


def _materialise(D, payload):
    """model-object targets become the real interpreter objects"""
    out = dict(payload)
    t = out.get("to")
    if isinstance(t, str) and t.startswith("@"):
        v_ = D.holder["targets"].get(t)
        if isinstance(v_, MActor):
            D.holder["targets"][t] = v_.real
    return out


def _teardown_check(D, root, n0):
    D.res.count("teardowns")
    for it in D.holder["interps"].values():
        if it.status not in ("stopped",):
            D.v("C15:actor-not-stopped-with-root", "actor %s is %s after the root was stopped" % (
                it.id, it.status))
            return
    if root.system.get_all():
        D.v("C15:registry-not-empty-after-root-stop", "registry still has %s" % sorted(root.system.get_all()))
    if getattr(root, "_actors", {}):
        D.v("C15:children-map-not-empty-after-root-stop", "root still lists %s" % sorted(root._actors))
    if len(D.log) != n0:
        D.v("C15:activity-after-root-stop", "after stop(): %s" % (D.log[n0:][:2],))


def run_sync(res, script, rng, idx):
    D = Driver(res, "sync", rng, script, idx)
    t0 = time.monotonic()

    def clock():
        return time.monotonic() - t0
    machine = build_node(D.log, clock, D.holder, tick_ms=rng.choice([0, 0, 25]))
    root = SyncInterpreter(machine)
    root.use(RootPlugin(D.log, clock))
    root.start()
    D.model.root.real = root
    D.model.window = D.margin = 0.012
    D.scale = 4                 # real time: 16-56 ms
    jitter = {"max": 0.0, "run": True}

    def canary():
        # measures how late this process's threads wake up; a script whose wake-ups were later than
        # half the uncertainty window is not judged on delivery counts
        while jitter["run"]:
            t = time.monotonic()
            time.sleep(0.002)
            jitter["max"] = max(jitter["max"], time.monotonic() - t - 0.002)
    cth = threading.Thread(target=canary, name="xsv-canary", daemon=True)
    cth.start()

    def settle():
        t1 = time.time()
        while time.time() - t1 < 1.0:
            its = list(D.holder["interps"].values())
            known = D.holder["interps"]
            pend = [a for r in its for a in list(getattr(r, "_actors", {}).values())
                    if a.status == "uninitialized" or (a.status == "running" and id(a) not in known)]
            busy = [r for r in its if getattr(r, "_is_processing", False) or len(getattr(r, "_event_queue", ()))]
            if not pend and not busy:
                return
            time.sleep(0.002)
        jitter["unsettled"] = True
    try:
        with LogCapture(logging.WARNING) as cap:
            for step, cmd in enumerate(script):
                D.now = clock()
                if cmd[0] == "WAIT":
                    time.sleep(cmd[1] / 1e3 + 0.004)
                    D.now = D.model.now = clock()
                    D.due()
                    settle()
                    continue
                pl = D.plan(cmd)
                if pl is None:
                    continue
                a, etype, payload, upd = pl
                if a.real is None or a.real.status != "running":
                    continue
                if payload.get("delay"):
                    payload["delay"] = payload["delay"] * 4     # real time: 16-56 ms
                payload = _materialise(D, payload)
                if "exec" in payload:
                    payload["exec"] = id(a.real)
                w0 = cap.count(logging.WARNING)
                D.t_send = clock()
                a.real.send(Event(type=etype, payload=payload))
                settle()
                D.now = clock()
                D.model.now = D.now
                D.due()
                out = upd()
                if etype in ("SPAWN", "SPAWNSVC"):
                    D.bind_new(out, a.real)
                res.evaluations += 1
                res.count("commands." + etype)
                if len(D.model.live()) >= 2:
                    res.hashes.add(h([idx, "sync", step]))
                if isinstance(out, tuple) and out[0] == "dropped":
                    res.count("drops.expected")
                    if cap.count(logging.WARNING) == w0 and not jitter.get("unsettled"):
                        D.v("C15:dropped-without-warning/%s" % out[1],
                            "%s to an %s target was dropped silently" % (etype, out[1]))
                if D.bad:
                    break
            if not D.bad:
                # let every pending delayed send come due, then compare once (no lateness judged)
                time.sleep(0.09)
                D.now = D.model.now = clock()
                D.due()
                settle()
                jitter["run"] = False
                if jitter["max"] > D.margin / 2 or jitter.get("unsettled"):
                    res.count("sync.skipped-jitter")
                else:
                    D.compare(len(script), ("END",))
        if not D.bad:
            for a in _finishers(D, rng):
                a.real.send(Event(type="FINISH", payload={}))
                res.count("teardown.finished-inner-actor")
            time.sleep(rng.choice([0.0, 0.004, 0.03]))
        root.stop()
        n0 = len(D.log)
        t1 = time.time()
        while observe.engine_threads() and time.time() - t1 < 6.0:
            time.sleep(0.004)
        if not D.bad:
            time.sleep(0.03)
            _teardown_check(D, root, n0)
            if observe.engine_threads():
                import traceback
                frames = sys._current_frames()
                where = []
                for t in observe.engine_threads()[:2]:
                    fr = frames.get(t.ident)
                    where.append((t.name.split("::")[0], [
                        "%s:%d %s" % (f.filename.split("/")[-1], f.lineno, f.name)
                        for f in (traceback.extract_stack(fr)[-4:] if fr is not None else [])]))
                D.v("C15:threads-alive-after-root-stop", "threads: %s" % (where,))
    finally:
        jitter["run"] = False
        if root.status != "stopped":
            root.stop()
    _finish(res, D)


def _finish(res, D):
    res.count("scripts." + D.engine)
    if D.idx % 200 == 0:
        res.sample({"engine": D.engine, "script": [list(c) for c in D.script[:10]],
                    "actors_at_end": [a.id for a in D.model.live()]})
    if D.bad:
        res.violation(D.bad[0], D.bad[1], {"engine": D.engine, "script": [list(c) for c in D.script]},
                      case={"idx": D.idx})


def finish_then_stop_race(res, trial):
    """Sync engine: an inner actor with many children completes on its own (its actor thread then
    stops it and them) at about the moment the root is stopped from the caller's thread.  Whoever
    wins, nothing below the root may run once the root's stop() has returned."""
    log, holder = [], {"targets": {}, "interps": {}}
    t0 = time.monotonic()
    machine = build_node(log, lambda: time.monotonic() - t0, holder, tick_ms=5)
    root = SyncInterpreter(machine).start()
    try:
        root.send(Event(type="SPAWN", payload={"id": "k1", "systemId": None, "input": None}))
        t1 = time.time()
        while time.time() - t1 < 2.0 and not [a for a in root._actors.values() if a.status == "running"]:
            time.sleep(0.002)
        kids = list(root._actors.values())
        if not kids:
            res.count("finish-race.not-set-up")
            return
        k1 = kids[0]
        for i in range(16):
            k1.send(Event(type="SPAWN", payload={"id": "g%d" % i, "systemId": None, "input": None}))
        time.sleep(0.05)
        k1.send(Event(type="FINISH", payload={}))
        time.sleep(0.0007 * (trial % 18))
        root.stop()
        n0 = len(log)
        t1 = time.time()
        while observe.engine_threads() and time.time() - t1 < 6.0:
            time.sleep(0.004)
        time.sleep(0.03)
        res.evaluations += 1
        res.count("finish-race.trials")
        res.hashes.add(h(["finish-race", trial]))
        if len(log) != n0:
            res.violation("C15:activity-after-root-stop/finishing-child-race/sync",
                          "after the root's stop() returned: %s" % ([(r[1], r[2]) for r in log[n0:]][:3],),
                          {"trial": trial, "children_of_the_finishing_actor": 16})
    finally:
        for it in list(holder["interps"].values()):
            if it.status != "stopped":
                it.stop()


def stopped_in_the_middle_of_its_own_macrostep(res, engine, blocking):
    """A child tells its parent something with sendParent; the parent answers at once with stopChild -
    re-entrantly, while the child is still in the middle of the action list that sent it.  What the
    child's remaining actions arm (a delayed sendParent) or spawn (a grandchild, with a systemId) after
    that must be released as well: nothing of it may reach the parent or stay alive."""
    got, glog = [], []
    helper = create_machine({"id": "helper", "initial": "on", "states": {"on": {"entry": ["up"], "on": {
        "PING": {"actions": ["hping"]}}}}}, logic=MachineLogic(actions={
            "up": lambda i, c, e, a: glog.append(("up", i)), "hping": lambda i, c, e, a: glog.append(("ping", i))}))
    spawn = ({"type": "spawn_blocking_helper", "params": {"id": "h", "systemId": "hsys"}} if blocking else
             {"type": "xstate.spawnChild", "params": {"src": "helper", "id": "h", "systemId": "hsys"}})
    child = create_machine({"id": "kid", "initial": "idle", "states": {"idle": {"on": {"FINISH": {"actions": [
        {"type": "xstate.sendParent", "params": {"event": "RELEASE_ME"}},
        {"type": "xstate.sendParent", "params": {"event": "LATE", "delay": 120}},
        spawn]}}}}}, logic=MachineLogic(services={"helper": helper}))
    parent_cfg = {"id": "p", "initial": "a", "states": {"a": {
        "entry": [{"type": "xstate.spawnChild", "params": {"src": "kid", "id": "w", "systemId": "wsys"}}],
        "on": {"GO": {"actions": [{"type": "xstate.sendTo", "params": {"to": "w", "event": "FINISH"}}]},
               "RELEASE_ME": {"actions": ["note", {"type": "xstate.stopChild", "params": {"id": "w"}}]},
               "LATE": {"actions": ["note"]}}}}}
    pm = create_machine(parent_cfg, logic=MachineLogic(
        actions={"note": lambda i, c, e, a: got.append(e.type)}, services={"kid": child}))
    out = {}
    if engine == "sync":
        it = SyncInterpreter(pm).start()
        try:
            t1 = time.time()
            while time.time() - t1 < 3.0 and not [a for a in it._actors.values() if a.status == "running"]:
                time.sleep(0.002)
            # FINISH goes to the child directly, from this thread: the child's macrostep runs here, its
            # sendParent finds the parent idle, and the parent's stopChild runs inside that macrostep
            kid_ = it.system.get("wsys")
            if kid_ is None:
                res.count("stopped-mid-macrostep.not-set-up")
                return
            kid_.send("FINISH")
            time.sleep(0.45)
            out["received"] = list(got)
            out["hsys"] = getattr(it.system.get("hsys"), "status", None)
            out["helpers"] = sorted({i.status for k, i in glog})
            out["threads"] = [t.name for t in observe.engine_threads()]
        finally:
            it.stop()
    else:
        async def body():
            it2 = Interpreter(pm)
            await it2.start()
            await drain(it2)
            for _ in range(10):
                await asyncio.sleep(0)
            kid_ = it2.system.get("wsys")
            if kid_ is None:
                return
            await kid_.send("FINISH")
            await drain(it2)
            await asyncio.sleep(0.3)
            await drain(it2)
            out["received"] = list(got)
            out["hsys"] = getattr(it2.system.get("hsys"), "status", None)
            out["helpers"] = sorted({i.status for k, i in glog})
            await it2.stop()
        observe.run_virtual(body)
    res.evaluations += 1
    res.count("stopped-mid-macrostep.scenarios." + engine)
    res.hashes.add(h(["mid-macrostep", engine, blocking]))
    wit = {"engine": engine, "blocking_spawn": blocking, "observed": out}
    if "RELEASE_ME" not in out.get("received", []):
        res.count("stopped-mid-macrostep.not-set-up")
        return
    if "LATE" in out["received"]:
        res.violation("C15:delayed-send-armed-after-stopChild-was-delivered/%s" % engine,
                      "the parent received %s: the delayed sendParent armed by the stopped child's remaining "
                      "actions still fired" % out["received"], wit)
    elif out["hsys"] not in (None, "stopped") or any(st == "running" for st in out["helpers"]):
        res.violation("C15:actor-spawned-by-a-stopped-child-stays-alive/%s" % engine,
                      "the grandchild spawned by the stopped child's remaining actions: statuses %s, systemId "
                      "still resolves to a %s actor" % (out["helpers"], out["hsys"]), wit)


def stop_while_start_is_spawning(res, turns):
    """(async) The parent's initial entry spawns a child whose own entry action is slow (awaits).
    stop() arrives while start() is suspended in there: the child is the parent's child from the moment
    it is spawned - it is stopped, unregistered and handles nothing afterwards."""
    out = {}

    async def body():
        gate = asyncio.Event()
        klog = []

        async def slow_entry(i, c, e, a):
            klog.append(("entry", i))
            await gate.wait()
        child = create_machine({"id": "kid", "initial": "s", "states": {"s": {
            "entry": ["slow_entry"], "on": {"PING": {"actions": ["pong"]}}}}}, logic=MachineLogic(actions={
                "slow_entry": slow_entry, "pong": lambda i, c, e, a: klog.append(("pong", i))}))
        pm = create_machine({"id": "p", "initial": "a", "states": {"a": {"entry": [
            {"type": "xstate.spawnChild", "params": {"src": "kid", "id": "w", "systemId": "wsys"}}]}}},
            logic=MachineLogic(services={"kid": child}))
        it = Interpreter(pm)
        starter = asyncio.ensure_future(it.start())
        for _ in range(turns):
            await asyncio.sleep(0)
        out["spawn_suspended"] = bool(klog) and not starter.done()
        await it.stop()
        gate.set()
        for _ in range(30):
            await asyncio.sleep(0)
        try:
            await asyncio.wait_for(starter, 1.0)
        except BaseException:  # noqa: BLE001
            pass
        kid = klog[0][1] if klog else None
        out["kid_status"] = getattr(kid, "status", None)
        out["wsys"] = getattr(it.system.get("wsys"), "status", None)
        if kid is not None:
            try:
                await kid.send("PING")
            except Exception:  # noqa: BLE001
                pass
            for _ in range(30):
                await asyncio.sleep(0)
        out["pongs"] = len([1 for k, _ in klog if k == "pong"])
        out["parent_status"] = it.status
        if kid is not None and kid.status != "stopped":
            await kid.stop()
    observe.run_virtual(body)
    res.evaluations += 1
    res.count("stop-while-start-spawns.scenarios")
    res.hashes.add(h(["stop-during-start-spawn", turns]))
    if not out.get("spawn_suspended"):
        res.count("stop-while-start-spawns.not-set-up")
        return
    if out["kid_status"] != "stopped" or out["wsys"] is not None or out["pongs"]:
        res.violation("C15:child-spawned-during-start-survives-stop/async",
                      "stop() while start() was suspended in the spawned child's entry action: child status %s, "
                      "systemId resolves to %s, events handled afterwards %d" % (
                          out["kid_status"], out["wsys"], out["pongs"]), {"turns": turns, "observed": out})


def run_chunk(spec):
    observe.quiet_logs()
    res = Result()
    tier, ci = spec["tier"], spec["chunk"]
    wd = Watchdog(res, 400.0)
    n_async = 50 if tier == "quick" else 20000
    n_sync = 6 if tier == "quick" else 700
    base = ci * 100000
    for j in range(n_async):
        idx = base + j
        wd.arm("async %d" % idx)
        rng = rng_for(spec["seed"], ID, ci, idx, "a")
        run_async(res, gen_script(rng, rng.randint(8, 30)), rng, idx)
    for j in range(n_sync):
        idx = base + 50000 + j
        wd.arm("sync %d" % idx)
        rng = rng_for(spec["seed"], ID, ci, idx, "s")
        run_sync(res, gen_script(rng, rng.randint(8, 20)), rng, idx)
    for t in range(3 if tier == "quick" else 40):
        wd.arm("finish race %d" % t)
        finish_then_stop_race(res, ci * 1000 + t)
    k = 0
    for engine in ("sync", "async"):
        for blocking in (True, False):
            if k % NCHUNKS == ci:
                wd.arm("stopped mid macrostep %s" % engine)
                stopped_in_the_middle_of_its_own_macrostep(res, engine, blocking)
            k += 1
    for turns in (2, 3, 5, 8):
        if k % NCHUNKS == ci:
            wd.arm("stop while start spawns")
            stop_while_start_is_spawning(res, turns)
        k += 1
    wd.disarm()
    return res.to_json()


def quota(counters, tier):
    out = []
    for k in ("scripts.async", "scripts.sync", "commands.SPAWN", "commands.SENDTO",
              "commands.STOPCHILD", "commands.CANCEL", "commands.FWDMSG", "commands.SENDPARENT",
              "commands.ESC", "deliveries.expected", "drops.expected", "teardowns", "finish-race.trials",
              "stopped-mid-macrostep.scenarios.sync", "stopped-mid-macrostep.scenarios.async",
              "stop-while-start-spawns.scenarios"):
        if counters.get(k, 0) == 0:
            out.append("monitor-never-reached:" + k)
    return out
