"""C01 — the active configuration is always a legal statechart configuration.

Monitors: legal() evaluated at every observation point the statement lists:
  start-return, sync send-return (outermost call only, via an icontract class
  invariant on SyncInterpreter + explicit check), async drain, inside every
  on_transition hook (the `to` set and the live configuration), inside every
  subscriber callback, every persisted snapshot, every PureSnapshot.
A run is judged up to its first violation.
"""
from __future__ import annotations

import json
import threading

from .. import drive, gen, observe, oracle
from ..observe import config_of
from .common import Result, Watchdog, h, mk_chunks, plan_summary, rng_for

ID = "C01"
LEVEL = "exploration"
RULE = ("random statecharts (profiles core/history/effects/done/full/timers: depth<=4, compound/"
        "parallel/final/history, every target relation and spelling) x 3 engines x random event "
        "sequences; a case is non-trivial when >=1 external transition fired and >=2 distinct "
        "configurations were observed; distinct = hash(plan, engine, events)")
ASSUMPTIONS = [
    "fault-free logic (aborting errors belong to C07)",
    "configurations seen inside user actions are mid-transition and are not judged",
    "oracle legal() and the generator's own tree are the trusted base",
]

PROFILE_CYCLE = ["core", "history", "history", "effects", "done", "full", "full", "history"]
NEV = {"quick": 25, "thorough": 30}
TOTAL = {"quick": 6400, "thorough": 120000}

_depth = threading.local()
_contract = {"evals": 0, "illegal": []}
_trees = {}


def _install_contract():
    """icontract class invariant on SyncInterpreter: config legal whenever an
    outermost public call returns.  Records and returns True (never raises)."""
    try:
        import icontract
    except Exception:
        return False
    SI = observe.SyncInterpreter
    if getattr(SI, "_xsv_contract", False):
        return True

    # depth counter so nested (re-entrant) public calls are not judged
    for name in ("start", "send", "send_events", "stop"):
        orig = SI.__dict__.get(name)
        if orig is None:
            continue

        def wrap(fn):
            def inner(self, *a, **k):
                _depth.d = getattr(_depth, "d", 0) + 1
                try:
                    return fn(self, *a, **k)
                finally:
                    _depth.d -= 1
            inner.__name__ = fn.__name__
            inner.__doc__ = fn.__doc__
            return inner
        setattr(SI, name, wrap(orig))

    def config_is_legal(self):
        if getattr(_depth, "d", 0) != 0:
            return True
        tree = _trees.get(id(getattr(self, "machine", None)))
        if tree is None or self.__dict__.get("status") in (None, "uninitialized"):
            return True
        _contract["evals"] += 1
        why = oracle.legal(tree, config_of(self))
        if why is not None:
            _contract["illegal"].append(why)
        return True

    class _Never(Exception):
        pass

    icontract.invariant(config_is_legal, error=_Never)(SI)
    SI._xsv_contract = True
    return True


def chunks(tier, seed):
    return mk_chunks(ID, tier, seed, TOTAL[tier], 16, timeout=900 if tier == "quick" else 3000)


def _key(why, ctxinfo):
    return "C01:%s@%s" % (oracle.legal_class(why), ctxinfo)


def run_case(res: Result, spec, idx, contract_ok):
    pname = PROFILE_CYCLE[idx % len(PROFILE_CYCLE)]
    P = gen.profile(pname)
    if idx % 16 == 5:
        # invoked services, some failing with nobody handling the failure: the machine ends in the
        # error status - in a legal configuration all the same
        P = gen.profile(pname, p_invoke=0.35, p_invoke_fail=0.5, p_unhandled_fail=0.6)
        res.count("cases.with-unhandled-service-failures")
    crng = rng_for(spec["seed"], ID, spec["chunk"], idx, "case")
    case = gen.gen_case(crng, P)
    tree = case.tree
    nev = NEV[spec["tier"]]
    only_engine = spec.get("only_engine")
    for engine in ("sync", "async", "pure"):
        if only_engine and engine != only_engine:
            continue
        erng = rng_for(spec["seed"], ID, spec["chunk"], idx, "events")
        seen_cfgs = set()
        state = {"bad": None, "ext": 0}

        def judge(point, cfg, info):
            res.count("obs." + point)
            why = oracle.legal(tree, cfg)
            if why is not None and state["bad"] is None:
                state["bad"] = (point, why, info, sorted(cfg))
            return why

        def scan_log(run, st):
            rec = run["rec"]
            pending = None  # illegal config first seen by a subscriber: classify by next tx
            for r in rec.log[st.log_from:]:
                if state["bad"] is not None:
                    return
                if r[0] == "tx":
                    tr = case.by_marker.get(_marker_of(r[3]))
                    rel = tr.relation() if tr is not None else (
                        "init" if "init" in str(getattr(r[3], "event", "")) else "other")
                    if pending is not None:
                        state["bad"] = ("subscriber", pending[0], rel, pending[1])
                        return
                    if r[1] != r[2]:
                        state["ext"] += 1
                    judge("on_transition.to", r[2], rel)
                    judge("on_transition.live", r[4], rel)
                    res.count("shape." + rel)
                elif r[0] == "sub":
                    res.count("obs.subscriber")
                    why = oracle.legal(tree, r[1])
                    if why is not None and pending is None:
                        pending = (why, sorted(r[1]))
            if pending is not None and state["bad"] is None:
                state["bad"] = ("subscriber", pending[0], "subscriber", pending[1])

        def on_step(run, st):
            if st.phase == "start" and isinstance(st.extra, Exception):
                res.count("refused." + type(st.extra).__name__)
                state["refused"] = True   # the library did not agree to start this machine
                return True
            if st.phase == "send" and isinstance(st.extra, Exception) and engine != "pure":
                res.count("send-raised." + type(st.extra).__name__)
            if engine == "pure":
                if isinstance(st.extra, Exception):
                    res.count("pure.raised." + type(st.extra).__name__)
                    return True
                judge("pure.snapshot", st.cfg, "pure:" + st.phase)
            else:
                scan_log(run, st)
                point = {"sync": "sync.%s.return", "async": "async.%s.drain"}[engine] % st.phase
                judge(point, st.cfg, point)
                interp = run["interp"]
                snap = interp.get_persisted_snapshot()
                judge("snapshot.configuration", snap["configuration"], "snapshot")
                if st.i % 7 == 0:
                    js = json.loads(interp.get_snapshot())
                    judge("snapshot.json", js["configuration"], "snapshot")
            seen_cfgs.add(st.cfg)
            return state["bad"] is not None

        def setup(run):
            _trees[id(run["machine"])] = tree

        _contract["illegal"].clear()
        c0 = _contract["evals"]
        # sub-workloads: (a) some marker actions await (async engine), so other tasks - the
        # engine's own consumer included - get to run in the middle of a macrostep;
        # (b) one or two action implementations are missing, so a transition aborts midway and
        # must be rolled back to a legal configuration (the statement covers every machine the
        # library agrees to start)
        names = gen.action_names(case.plan)
        frng = rng_for(spec["seed"], ID, spec["chunk"], idx, "faults")
        kw = {}
        # (not together with services: a re-armed service that completes at once re-triggers the
        #  transition that failed, for ever - such a run never settles and can only be observed
        #  mid-transition)
        if idx % 4 == 1 and names and not case.invokes:
            kw["drop"] = frng.sample(names, min(len(names), frng.randint(1, 2)))
            res.count("runs.with-missing-action." + engine)
        if engine == "async" and idx % 3 != 0:
            kw["yields"] = {n: frng.randint(1, 2) for n in names if frng.random() < 0.3}
            res.count("runs.with-awaiting-actions")
        if engine == "sync":
            run = drive.run_sync(case, nev, erng, on_step, setup=setup, machine_kw=kw)
        elif engine == "async":
            run = drive.run_async(case, nev, erng, on_step, setup=setup, machine_kw=kw)
            if run.get("undrained"):
                res.count("async.undrained", run["undrained"])
        else:
            run = drive.run_pure(case, nev, erng, on_step)
        _trees.clear()
        if engine == "sync" and contract_ok:
            res.count("obs.icontract.invariant", _contract["evals"] - c0)
            if _contract["illegal"] and state["bad"] is None and not state.get("refused"):
                state["bad"] = ("icontract.invariant", _contract["illegal"][0], "public-return", [])
        res.evaluations += 1
        nontrivial = state["ext"] >= 1 and len(seen_cfgs) >= 2 if engine != "pure" \
            else len(seen_cfgs) >= 2
        if nontrivial:
            res.hashes.add(h([case.plan, engine, run["events"]]))
        res.count("runs." + engine)
        res.count("profile." + pname)
        if idx < 2 and engine == "sync":
            res.sample({"profile": pname, "engine": engine, "events": run["events"][:8],
                        "configs_seen": len(seen_cfgs), "machine": plan_summary(case)})
        if state["bad"] is not None:
            point, why, info, cfg = state["bad"]
            res.violation(
                _key(why, info),
                "illegal configuration (%s) observed at %s after %s" % (why, point, info),
                {"engine": engine, "point": point, "reason": why, "config": cfg,
                 "events": run["events"], "gtable": run["gtable"], "profile": pname,
                 "plan": case.plan},
                case={"idx": idx, "engine": engine})


def _marker_of(transition):
    for a in getattr(transition, "actions", []) or []:
        t = getattr(a, "type", "")
        if t.startswith("tr."):
            return t
    return None


def run_chunk(spec):
    observe.quiet_logs()
    res = Result()
    contract_ok = _install_contract()
    if not contract_ok:
        res.inconclusive.append("icontract-unavailable")
    only = spec.get("only_case")
    if only:
        spec = dict(spec, only_engine=only.get("engine"))
        run_case(res, spec, only["idx"], contract_ok)
        return res.to_json()
    base = spec["chunk"] * 100000
    wd = Watchdog(res, 400.0)
    for j in range(spec["n"]):
        wd.arm("idx=%d" % (base + j))
        run_case(res, spec, base + j, contract_ok)
    wd.disarm()
    return res.to_json()


REQUIRED = ["obs.sync.start.return", "obs.sync.send.return", "obs.async.start.drain",
            "obs.async.send.drain", "obs.on_transition.to", "obs.on_transition.live",
            "obs.subscriber", "obs.snapshot.configuration", "obs.snapshot.json",
            "obs.pure.snapshot", "obs.icontract.invariant"]


def quota(counters, tier):
    out = []
    for k in REQUIRED:
        if counters.get(k, 0) == 0:
            out.append("observation-point-never-reached:" + k)
    if counters.get("async.undrained", 0):
        out.append("async-not-drained:%d" % counters["async.undrained"])
    return out
