"""C13 — every macrostep terminates and never starves the host."""
from __future__ import annotations

import asyncio
import json
import logging
import os
import sys

from .. import observe, oracle
from ..observe import (Event, Interpreter, LogCapture, MachineLogic, SyncInterpreter, config_of,
                       create_machine, drain, run_virtual)
from .common import Result, Watchdog, h, rng_for

ID = "C13"
LEVEL = "exploration"
TECHNIQUE = ("runtime monitoring with logical step counting: a counting marker on every feedback "
             "path decides termination on the number of chain steps (not wall-clock); a heartbeat "
             "task on the same loop decides host starvation; post-cut probes decide recovery")
LEVEL_TEXT = ("for each feedback family x cycle length below/at/above maxIterations x trigger "
              "(start/event) x engine the chain must stop within the bound, run to its natural end "
              "below it, log an error at the cut, leave a legal configuration and answer a probe; "
              "held on all combinations enumerated")
LEVEL_NOTE = ("trusted: counting markers in harness logic; bound = 2*maxIterations+10 steps for "
              "event/always/done chains, MAX_ACTION_DEPTH+maxIterations+10 for nested action "
              "expansion (neither reading over-demanded)")
RULE = ("families: mutually enabling always (cycle of 1-3 states), action raising its own trigger "
        "(fan-out 1-2), onDone re-completing its own state (plain, via re-entering the machine, "
        "via a parallel region), done.invoke chain through an immediately returning service, "
        "self-enqueueing pure/choose/enqueueActions; maxIterations N in {3..40}; finite chains of "
        "length L<N; external bursts of 1..3N events; one evaluation = one (family, variant, N, "
        "trigger, engine) run; all are non-trivial; distinct by that tuple")
ASSUMPTIONS = ["done.invoke chains in the async engine yield to the loop on every step: only "
               "non-starvation is judged there and the run is stopped by the harness",
               "a wall-clock watchdog exists only as a backstop; it firing is inconclusive"]
EXHAUSTIVE = {"quick": False, "thorough": False}
NCHUNKS = 16
MAXDEPTH = 50

_CUR = {"res": None}


def chunks(tier, seed):
    return [{"name": f"C13-{tier}-{i}", "prop": ID, "tier": tier, "seed": seed, "chunk": i,
             "timeout": 600 if tier == "quick" else 2400} for i in range(NCHUNKS)]


class Runaway(BaseException):
    pass


def _abort_runaway(key, what, wit):
    """A chain ran 50x past its bound: record and leave the process (an async runaway cannot
    be interrupted from inside its own loop)."""
    res = _CUR["res"]
    res.violation(key, what, wit)
    sys.stdout.write("\nXSVRESULT " + json.dumps(res.to_json(), default=str) + "\n")
    sys.stdout.flush()
    os._exit(0)


# ---------------------------------------------------------------------------
# machine families
# ---------------------------------------------------------------------------
def fam_always(N, variant, trigger, finite_len):
    k = variant  # cycle length 1..3
    states = {"idle": {"on": {"GO": "a0"}}}
    if finite_len is None:
        for i in range(k):
            nxt = "a%d" % ((i + 1) % k)
            t = {"target": nxt, "actions": ["cnt"]}
            if k == 1:
                t["reenter"] = True
            states["a%d" % i] = {"always": [t]}
    else:
        for i in range(finite_len):
            states["a%d" % i] = {"always": [{"target": "a%d" % (i + 1), "actions": ["cnt"]}]}
        states["a%d" % finite_len] = {}
    return {"id": "m", "initial": "a0" if trigger == "start" else "idle", "maxIterations": N,
            "context": {"n": 0}, "on": {"P": {"actions": ["probe"]}}, "states": states}


def _send_self_cb(a):
    a["enqueue"].send_to(a["self"], "E")


def fam_raise(N, variant, trigger, finite_len):
    fan = min(variant, 2)  # 1 or 2 raises per step
    raises = [{"type": "xstate.raise", "params": {"event": "E"}} for _ in range(fan)]
    if variant == 3:
        # the trigger is re-sent with sendTo addressed to the machine itself (XState's
        # sendTo(({self}) => self, ...)), through the enqueueActions callback
        raises = [{"type": "xstate.enqueueActions", "params": {"callback": _send_self_cb}}]
    if variant == 4:
        # "at once" spelled as an explicit zero delay (0, 0.0): still the same chain
        raises = [{"type": "xstate.raise", "params": {"event": "E", "delay": 0 if N % 2 else 0.0}}]
    if variant == 5:
        # the handler re-queues the very event object it is handling
        raises = [{"type": "xstate.raise", "params": {"event": (lambda a: a["event"])}}]

    if finite_len is None:
        acts = ["cnt"] + raises
    else:
        acts = [{"type": "xstate.choose", "params": {"conditions": [
            {"guard": "below", "actions": ["cnt", "inc"] + raises[:1]}]}}]
    first = {"type": "xstate.raise", "params": {"event": "E"}} if variant == 5 else raises[0]
    st = {"on": {"E": {"actions": acts}, "GO": {"actions": [first]}}}
    if trigger == "start":
        st["entry"] = [first]
    return {"id": "m", "initial": "s", "maxIterations": N, "context": {"n": 0, "L": finite_len or 0},
            "on": {"P": {"actions": ["probe"]}}, "states": {"s": st}}


def fam_ondone(N, variant, trigger, finite_len):
    # variant 1: onDone targets own final child; 2: onDone re-enters the machine root (plus a
    # harmless targetless completion per round); 3: re-completion inside a parallel region
    if variant == 1:
        c = {"initial": "f", "states": {"f": {"type": "final"}},
             "onDone": {"target": ".f" if False else "#m.c.f", "actions": ["cnt"]}}
        states = {"idle": {"on": {"GO": "c"}}, "c": c}
        init = "c" if trigger == "start" else "idle"
        return {"id": "m", "initial": init, "maxIterations": N, "context": {"n": 0},
                "on": {"P": {"actions": ["probe"]}}, "states": states}
    if variant == 2:
        a = {"initial": "f", "states": {"f": {"type": "final"}}, "onDone": {"actions": ["quiet"]}}
        b = {"initial": "g", "states": {"g": {"type": "final"}},
             "onDone": {"target": "#m", "actions": ["cnt"]}}
        par = {"type": "parallel", "states": {"a": a, "b": b}}
        # the machine root is re-entered each round, so the loop needs `par` to be initial; the
        # event trigger reaches it through a wrapper whose initial state is `par`
        if trigger == "start":
            return {"id": "m", "initial": "par", "maxIterations": N, "context": {"n": 0},
                    "on": {"P": {"actions": ["probe"]}}, "states": {"par": par}}
        b["onDone"] = {"target": "#m.w", "actions": ["cnt"]}
        return {"id": "m", "initial": "idle", "maxIterations": N, "context": {"n": 0},
                "on": {"P": {"actions": ["probe"]}},
                "states": {"idle": {"on": {"GO": "w"}}, "w": {"initial": "par", "states": {"par": par}}}}
    r1 = {"initial": "f", "states": {"f": {"type": "final"}},
          "onDone": {"target": "#m.par.r1", "reenter": True, "actions": ["cnt"]}}
    r2 = {"initial": "x", "states": {"x": {}}}
    par = {"type": "parallel", "states": {"r1": r1, "r2": r2}}
    return {"id": "m", "initial": "par" if trigger == "start" else "idle", "maxIterations": N,
            "context": {"n": 0}, "on": {"P": {"actions": ["probe"]}},
            "states": {"idle": {"on": {"GO": "par"}}, "par": par}}


def fam_invoke(N, variant, trigger, finite_len):
    s = {"invoke": {"src": "svc", "id": "i1",
                    "onDone": {"target": "s", "reenter": True, "actions": ["cnt"]}}}
    if variant == 2:
        # immediate retry: the service keeps failing and onError re-enters the invoking state
        s = {"invoke": {"src": "svc_bad", "id": "i1",
                        "onError": {"target": "s", "reenter": True, "actions": ["cnt"]}}}
    return {"id": "m", "initial": "s" if trigger == "start" else "idle", "maxIterations": N,
            "context": {"n": 0}, "on": {"P": {"actions": ["probe"]}},
            "states": {"idle": {"on": {"GO": "s"}}, "s": s}}


def fam_expand(N, variant, trigger, finite_len):
    # self-enqueueing nested action expansion: 1 pure, 2 choose, 3 enqueueActions
    loop = {}
    if variant == 1:
        loop.update({"type": "xstate.pure", "params": {"get": (lambda a: ["cnt", loop])}})
    elif variant == 2:
        loop.update({"type": "xstate.choose", "params": {"conditions": [{"actions": ["cnt", loop]}]}})
    else:
        def cb(a):
            a["enqueue"]("cnt")
            a["enqueue"](loop)
        loop.update({"type": "xstate.enqueueActions", "params": {"callback": cb}})
    st = {"on": {"GO": {"actions": [loop]}}}
    if trigger == "start":
        st["entry"] = [loop]
    return {"id": "m", "initial": "s", "maxIterations": N, "context": {"n": 0},
            "on": {"P": {"actions": ["probe"]}}, "states": {"s": st}}


FAMILIES = {
    "always": (fam_always, [1, 2, 3]),
    "raise": (fam_raise, [1, 2, 3, 4, 5]),
    "ondone": (fam_ondone, [1, 2, 3]),
    "invoke": (fam_invoke, [1, 2]),
    "expand": (fam_expand, [1, 2, 3]),
}


def _svc_bad(i, c, e):
    raise RuntimeError("service failed")


def bound_for(family, N):
    if family == "expand":
        return MAXDEPTH + N + 10
    return 2 * N + 10


def run_one(res: Result, family, variant, N, trigger, engine, finite_len):
    builder, _ = FAMILIES[family]
    cfg = builder(N, variant, "event" if trigger == "after" else trigger, finite_len)
    if trigger == "after":
        # the chain is started by an engine-owned timer (sync: a timer THREAD runs the drain)
        holder = cfg["states"].get("idle") or cfg["states"]["s"]
        holder["after"] = {"5": holder["on"].pop("GO")}
    B = bound_for(family, N)
    st = {"cnt": 0, "probe": 0, "beats": 0, "last_beat_at": 0, "max_gap": 0, "stopper": None}
    wit = {"family": family, "variant": variant, "N": N, "trigger": trigger, "engine": engine,
           "finite_len": finite_len}

    def cnt(i, c, e, a):
        st["cnt"] += 1
        gap = st["cnt"] - st["last_beat_at"]
        if st["beats_seen"] != st["beats"]:
            st["beats_seen"] = st["beats"]
            st["last_beat_at"] = st["cnt"]
            gap = 0
        st["max_gap"] = max(st["max_gap"], gap)
        if st["cnt"] > 50 * B:
            if family == "invoke" and engine == "async":
                return
            _abort_runaway("C13:does-not-terminate/%s-%d/%s/%s" % (family, variant, trigger, engine),
                           "%s chain still running after %d steps (bound %d)" % (family, st["cnt"], B),
                           wit)
    st["beats_seen"] = 0
    logic = MachineLogic(
        actions={"cnt": cnt, "probe": lambda i, c, e, a: st.__setitem__("probe", st["probe"] + 1),
                 "inc": lambda i, c, e, a: c.__setitem__("n", c["n"] + 1),
                 "quiet": lambda i, c, e, a: None},
        guards={"below": lambda c, e: c["n"] < c["L"]},
        services={"svc": lambda i, c, e: 1, "svc_bad": _svc_bad})
    machine = create_machine(cfg, logic=logic)
    errors = [0]
    info = {}
    with LogCapture(logging.ERROR) as cap:
        if engine == "sync":
            it = SyncInterpreter(machine)
            try:
                it.start()
                if trigger == "event":
                    it.send("GO")
                elif trigger == "after":
                    import time as _t
                    t0 = _t.time()
                    last, stable = -1, 0
                    while _t.time() - t0 < 3.0 and stable < 8:
                        _t.sleep(0.01)
                        if st["cnt"] == last and st["cnt"] > 0 and not it._is_processing:
                            stable += 1
                        else:
                            stable = 0
                        last = st["cnt"]
            except Exception as x:  # noqa: BLE001
                info["exc"] = repr(x)
            errors[0] = cap.count(logging.ERROR)
            info["after"] = st["cnt"]
            info["legal"] = oracle.legal_nodes(machine, config_of(it))
            info["status"] = it.status
            try:
                it.send("P")
            except Exception as x:  # noqa: BLE001
                info["exc2"] = repr(x)
            it.stop()
        else:
            async def body():
                async def heart():
                    while True:
                        # with a timer-triggered chain virtual time must be able to advance, so
                        # the heartbeat then ticks in (virtual) time instead of spinning
                        await asyncio.sleep(0.0001 if trigger == "after" else 0)
                        st["beats"] += 1
                hb = asyncio.ensure_future(heart())
                it = Interpreter(machine)
                try:
                    await it.start()
                    if trigger == "event":
                        await it.send("GO")
                    elif trigger == "after":
                        await asyncio.sleep(0.006)
                    if family == "invoke":
                        for _ in range(40 * N):     # the chain yields; let it run a while
                            await asyncio.sleep(0)
                    else:
                        await drain(it, max_yields=400 * B)
                except Exception as x:  # noqa: BLE001
                    info["exc"] = repr(x)
                errors[0] = cap.count(logging.ERROR)
                info["after"] = st["cnt"]
                info["legal"] = oracle.legal_nodes(machine, config_of(it))
                info["status"] = it.status
                if family != "invoke":
                    await it.send("P")
                    await drain(it, max_yields=400 * B)
                hb.cancel()
                await it.stop()
            run_virtual(body)
    res.evaluations += 1
    res.count("runs.%s.%s" % (family, engine))
    res.hashes.add(h([family, variant, N, trigger, engine, finite_len]))
    n = info.get("after", st["cnt"])
    key_tail = "%s-%d/%s/%s" % (family, variant, trigger, engine)
    if "exc" in info:
        res.violation("C13:start-or-send-raised/" + key_tail, "raised %s" % info["exc"], wit)
        return
    if finite_len is not None:
        res.count("finite-chains")
        if n != finite_len:
            res.violation("C13:finite-chain-cut-short/" + key_tail,
                          "chain of length %d (maxIterations %d) ran %d steps" % (finite_len, N, n),
                          dict(wit, steps=n))
        return
    if family == "invoke" and engine == "async":
        res.count("async-invoke-chain.starvation-only")
        if st["max_gap"] > 3:
            res.violation("C13:host-starved/" + key_tail,
                          "%d consecutive chain steps without the heartbeat task running" % st["max_gap"],
                          dict(wit, steps=n))
        return
    res.count("infinite-chains")
    if n > B:
        res.violation("C13:chain-not-cut-within-bound/" + key_tail,
                      "chain ran %d steps, bound %d (maxIterations %d)" % (n, B, N), dict(wit, steps=n))
        return
    if n < 1:
        res.violation("C13:chain-never-ran/" + key_tail,
                      "chain ran %d steps with maxIterations %d" % (n, N), dict(wit, steps=n))
        return
    if errors[0] == 0:
        res.violation("C13:cut-without-error-log/" + key_tail,
                      "chain was cut after %d steps but no ERROR record was logged" % n, dict(wit, steps=n))
    if info.get("legal") is not None:
        res.violation("C13:illegal-configuration-after-cut/" + key_tail,
                      "configuration after the cut: %s" % info["legal"], dict(wit, steps=n))
    if info.get("status") != "running" or st["probe"] != 1:
        res.violation("C13:unresponsive-after-cut/" + key_tail,
                      "status %s, probe handled %d time(s)" % (info.get("status"), st["probe"]),
                      dict(wit, steps=n))
    if engine == "async" and st["max_gap"] > B:
        res.violation("C13:host-starved/" + key_tail,
                      "%d consecutive chain steps without the heartbeat running (bound %d)" % (
                          st["max_gap"], B), dict(wit, steps=n))


def burst(res: Result, N, k, engine, how):
    st = {"cnt": 0}
    cfg = {"id": "m", "initial": "s", "maxIterations": N,
           "states": {"s": {"on": {"E": {"actions": ["cnt"]}}}}}
    machine = create_machine(cfg, logic=MachineLogic(
        actions={"cnt": lambda i, c, e, a: st.__setitem__("cnt", st["cnt"] + 1)}))
    if engine == "sync":
        it = SyncInterpreter(machine).start()
        if how == "send_events":
            it.send_events(["E"] * k)
        else:
            for _ in range(k):
                it.send("E")
        it.stop()
    else:
        async def body():
            it = Interpreter(machine)
            await it.start()
            if how == "send_events":
                await it.send_events(["E"] * k)
            else:
                await asyncio.gather(*[it.send("E") for _ in range(k)])
            await drain(it, max_yields=50 * k + 1000)
            await it.stop()
        run_virtual(body)
    res.evaluations += 1
    res.count("bursts")
    res.hashes.add(h(["burst", N, k, engine, how]))
    if st["cnt"] != k:
        res.violation("C13:external-burst-throttled/%s/%s" % (how, engine),
                      "%d external events sent, %d processed (maxIterations %d)" % (k, st["cnt"], N),
                      {"N": N, "k": k, "engine": engine, "how": how})


# ---------------------------------------------------------------------------
# random machines with cycles of every kind
# ---------------------------------------------------------------------------
def random_machines(res, spec, n, wd):
    """Generated statecharts whose always / raise / onDone / nested-expansion edges may close
    cycles anywhere, with a random maxIterations: every start()/send() must return (a counter on
    the transition records aborts a runaway), leave a legal configuration, and the interpreter
    must still answer a probe afterwards."""
    from .. import drive, gen, oracle
    ci = spec["chunk"]
    for j in range(n):
        idx = ci * 100000 + j
        rng = rng_for(spec["seed"], ID, ci, idx, "rand")
        N = rng.choice([3, 4, 6, 9, 14, 22, 35])
        P = gen.profile("effects", loops=True, maxit=N, p_always=0.4, p_raise=0.45, p_ondone=0.6,
                        ondone_forward=False, p_final=0.2, p_parallel=0.3, max_states=14, p_guard=0.3,
                        p_effects=0.5, p_root_on=0.5, p_invoke=0.25 if j % 2 else 0.0, p_invoke_fail=0.5)
        case = gen.gen_case(rng_for(spec["seed"], ID, ci, idx, "case"), P)
        nacts = 2 + max([len(t.actions) for t in case.trans] + [1])
        cap = 60 * (N + 3) * (N + 3) * nacts
        # a service completion reaches the async engine from a task of its own: such a retry loop
        # yields between rounds and is (like any polling loop) not a single macrostep, so machines
        # with invocations are run on the sync engine only, where the service runs inline
        for engine in (("sync",) if case.invokes else ("sync", "async")):
            wd.arm("random idx=%d %s" % (idx, engine))
            st = {"tx": 0, "step": -2, "max": 0}

            def setup(run, _st=st, _cap=cap, _idx=idx, _eng=engine, _N=N):
                def on_tx(interp, rec, __st=_st):
                    __st["tx"] += 1
                    if __st["tx"] > _cap:
                        _abort_runaway("C13:random-machine-does-not-terminate/%s" % _eng,
                                       "more than %d transitions in one start()/send() with maxIterations=%d" % (
                                           _cap, _N), {"idx": _idx, "engine": _eng, "maxIterations": _N,
                                                       "plan": case.plan})
                run["rec"].on_tx = on_tx

            def on_step(run, step, _st=st, _eng=engine, _idx=idx):
                _st["max"] = max(_st["max"], _st["tx"])
                _st["tx"] = 0
                if isinstance(step.extra, Exception):
                    return True
                if step.phase == "send" and _st.get("prev") == "running":
                    res.count("random.events-after-a-cut-or-chain")
                    if not any(r[0] == "ev" for r in run["rec"].log[step.log_from:]):
                        res.violation("C13:interpreter-deaf-after-cut/%s" % _eng,
                                      "a running interpreter did not process the next event (step %d)" % step.i,
                                      {"idx": _idx, "plan": case.plan}, case={"idx": _idx})
                        return True
                _st["prev"] = step.status
                why = oracle.legal(case.tree, step.cfg)
                if why and step.status == "running":
                    res.violation("C13:illegal-configuration-after-cut/%s" % _eng,
                                  "after step %d: %s" % (step.i, why), {"idx": _idx, "plan": case.plan},
                                  case={"idx": _idx})
                    return True
                return False
            f = drive.run_sync if engine == "sync" else drive.run_async
            run = f(case, 10, rng_for(spec["seed"], ID, ci, idx, "ev", engine), on_step, setup=setup)
            res.evaluations += 1
            res.count("random.runs." + engine)
            if st["max"] > 3 * N:
                res.count("random.long-chains")
                res.hashes.add(h(["rand", idx, engine]))


def budget_after_aborted_macrosteps(res, engine, N, k, aborts):
    """The bound never throttles events sent from outside - also not after macrosteps that raised a
    few events (fewer than the bound) and were then ABORTED by an error: what those spent must not
    count against later, unrelated drains."""
    st = {"t": 0, "x": 0}
    raises = [{"type": "xstate.raise", "params": {"event": "X"}} for _ in range(k)]
    cfg = {"id": "m", "initial": "s", "maxIterations": N, "states": {"s": {"on": {
        "BAD": {"actions": raises + ["not_implemented_anywhere"]},
        "X": {"actions": ["x"]}, "T": {"actions": ["t"]}}}}}
    machine = create_machine(cfg, logic=MachineLogic(actions={
        "x": lambda i, c, e, a: st.__setitem__("x", st["x"] + 1),
        "t": lambda i, c, e, a: st.__setitem__("t", st["t"] + 1)}))
    nT = 2 * N + 3
    with LogCapture(logging.ERROR):
        if engine == "sync":
            it = SyncInterpreter(machine).start()
            for _ in range(aborts):
                try:
                    it.send("BAD")
                except Exception:  # noqa: BLE001
                    pass
            for _ in range(nT):
                it.send("T")
            it.stop()
        else:
            async def body():
                it = Interpreter(machine)
                await it.start()
                for _ in range(aborts):
                    await it.send("BAD")
                    await drain(it, max_yields=2000)
                for _ in range(nT):
                    await it.send("T")
                await drain(it, max_yields=5000)
                await it.stop()
            run_virtual(body)
    res.evaluations += 1
    res.count("budget-after-aborts." + engine)
    res.hashes.add(h(["budget-abort", engine, N, k, aborts]))
    if st["t"] != nT:
        res.violation("C13:external-events-throttled-after-aborted-macrosteps/%s" % engine,
                      "%d external events sent after %d aborted macrosteps (each raised %d events, "
                      "maxIterations %d): %d processed" % (nT, aborts, k, N, st["t"]),
                      {"engine": engine, "maxIterations": N, "raised_per_abort": k, "aborts": aborts,
                       "config": cfg})


def run_chunk(spec):
    observe.quiet_logs()
    res = Result()
    _CUR["res"] = res
    tier, ci = spec["tier"], spec["chunk"]
    wd = Watchdog(res, 400.0)
    Ns = [3, 5, 8, 13, 21, 40] if tier == "quick" else list(range(3, 41))
    cases = []
    for family, (_, variants) in FAMILIES.items():
        for v in variants:
            for N in Ns:
                for trig in ("start", "event", "after"):
                    for eng in ("sync", "async"):
                        if trig == "after" and (N not in (3, 8, 21) or v != 1):
                            continue
                        if trig == "after" and family == "invoke" and eng == "async":
                            continue   # endlessly runnable chain: virtual time cannot advance
                        cases.append((family, v, N, trig, eng, None))
                        if family in ("always", "raise") and v == 1:
                            for L in sorted({1, max(1, N // 2), N - 1}):
                                if L < min(N, MAXDEPTH):
                                    cases.append((family, v, N, trig, eng, L))
    only = spec.get("only_case")
    for i, c in enumerate(cases):
        if i % NCHUNKS != ci:
            continue
        wd.arm("case=%r" % (c,))
        run_one(res, *c)
        if len(res.samples) < 1 and ci == 0:
            res.sample({"family": c[0], "variant": c[1], "maxIterations": c[2], "trigger": c[3],
                        "engine": c[4], "finite_len": c[5],
                        "config": repr(FAMILIES[c[0]][0](c[2], c[1], c[3], c[5]))[:700]})
    bursts = []
    for N in Ns:
        for k in sorted({1, N, N + 1, 3 * N}):
            for eng in ("sync", "async"):
                for how in ("send", "send_events"):
                    bursts.append((N, k, eng, how))
    bursts += [(1000, 1500, e, hw) for e in ("sync", "async") for hw in ("send", "send_events")]
    for i, b in enumerate(bursts):
        if i % NCHUNKS != ci:
            continue
        wd.arm("burst=%r" % (b,))
        burst(res, *b)
    kk = 0
    for engine in ("sync", "async"):
        for N, k, aborts in ((5, 3, 2), (5, 4, 3), (8, 3, 4), (12, 5, 6)):
            if kk % NCHUNKS == ci:
                wd.arm("budget after aborts %s" % engine)
                budget_after_aborted_macrosteps(res, engine, N, k, aborts)
            kk += 1
    if not only:
        random_machines(res, spec, 12 if tier == "quick" else 1500, wd)
    wd.disarm()
    return res.to_json()


def quota(counters, tier):
    out = []
    for fam in FAMILIES:
        for eng in ("sync", "async"):
            if counters.get("runs.%s.%s" % (fam, eng), 0) == 0:
                out.append("family-never-run:%s.%s" % (fam, eng))
    for k in ("finite-chains", "infinite-chains", "bursts", "async-invoke-chain.starvation-only",
              "random.runs.sync", "random.runs.async", "random.long-chains", "budget-after-aborts.sync",
              "budget-after-aborts.async"):
        if counters.get(k, 0) == 0:
            out.append("monitor-never-reached:" + k)
    return out
