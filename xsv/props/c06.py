"""C06 — guards gate transitions exactly: composites, stateIn, cond alias, raise=false, missing=error."""
from __future__ import annotations

import asyncio
import itertools
import logging

from .. import observe
from ..observe import (Event, Interpreter, LogCapture, MachineLogic, SyncInterpreter,
                       create_machine, drain, run_virtual, xs)
from .common import Result, Watchdog, h, rng_for

ID = "C06"
LEVEL = "exploration"
TECHNIQUE = ("runtime monitoring with exhaustive enumeration of guard expressions (depth<=2) x "
             "valuations x positions; reference evaluator with left-to-right short-circuit decides "
             "which marker transition must fire on the real engines")
LEVEL_TEXT = ("complete enumeration of guard formulas to nesting depth 1 (quick) / 2 (thorough), "
              "depth 3 sampled, placed at 8 positions, both operand spellings, guard/cond, both "
              "engines; held on everything enumerated")
LEVEL_NOTE = "trusted: eval_guard() (25 lines) and the marker machines built in build()"
RULE = ("atoms: named true/false/raising, parameterised (static and computed params), stateIn "
        "(active/inactive, '#' and bare spelling), missing; formulas = all and/or/not over them to "
        "the depth bound; one evaluation = one (formula, spelling, position, key, engine) run; "
        "non-trivial = composite formula or raising/missing atom; distinct = hash of the case")
ASSUMPTIONS = [
    "a raising atom under `not` is run but not judged (two readings of 'raises counts as false')",
    "a missing atom that short-circuit evaluation does not reach may give the boolean or the error",
    "missing guard inside choose/enqueueActions: judged as 'no branch taken and the failure is "
    "reported (exception or ERROR record)'",
]
EXHAUSTIVE = {"quick": True, "thorough": True}
NCHUNKS = 16

ATOMS = ["T", "F", "R", "P1", "P0", "PC1", "PC0", "PZ1", "PZ0", "SA", "SI", "SAb", "SIx", "M"]
POSITIONS = ["cand0", "cand1", "cand2", "parent", "grandparent", "ancestor-fallback", "choose", "enq",
             "late-region"]
LIBMISSING = xs.ImplementationMissingError


def chunks(tier, seed):
    return [{"name": f"C06-{tier}-{i}", "prop": ID, "tier": tier, "seed": seed, "chunk": i,
             "timeout": 900 if tier == "quick" else 3000} for i in range(NCHUNKS)]


# expressions: atom string | ("not", e) | ("and", e1, e2[, e3]) | ("or", e1, e2[, e3])
def exprs(depth):
    if depth == 0:
        yield from ATOMS
        return
    sub = list(exprs(depth - 1))
    yield from sub
    seen = set(sub)
    for e in sub:
        x = ("not", e)
        if x not in seen:
            yield x
    for op in ("and", "or"):
        for a, b in itertools.product(sub, repeat=2):
            yield (op, a, b)


def eval_guard(e):
    """-> (value, judged): value in True/False/'missing'; left-to-right short-circuit."""
    unj = [False]

    def ev(x, under_not):
        if isinstance(x, str):
            if x == "R":
                if under_not:
                    unj[0] = True
                return False
            if x == "M":
                return "missing"
            return x in ("T", "P1", "PC1", "PZ1", "SA", "SAb")   # SI, SIx, F, P0, PC0, PZ0 are false
        if x[0] == "not":
            v = ev(x[1], True)
            return v if v == "missing" else (not v)
        if x[0] == "and":
            for c in x[1:]:
                v = ev(c, under_not)
                if v == "missing":
                    return v
                if not v:
                    return False
            return True
        for c in x[1:]:
            v = ev(c, under_not)
            if v == "missing":
                return v
            if v:
                return True
        return False
    v = ev(e, False)
    return v, not unj[0]


def has_unreached_missing(e):
    """True if the formula contains M but evaluation (short-circuit) never reaches it."""
    def contains(x):
        return x == "M" if isinstance(x, str) else any(contains(c) for c in x[1:])
    return contains(e) and eval_guard(e)[0] != "missing"


def to_cfg(e, spelling, late=False):
    if isinstance(e, str):
        if late and e in ("SA", "SI"):
            # position 'late-region': states a sibling region's transition of the SAME event leaves /
            # enters before the guarded transition is executed
            return {"type": "stateIn", "params": {"state": "#m.a.p.us.c.i" if e == "SA" else "#m.a.p.us.c.j"}}
        return {
            "T": "gT", "F": "gF", "R": "gR", "M": "gMissing",
            "P1": {"type": "gP", "params": {"v": 1}}, "P0": {"type": "gP", "params": {"v": 0}},
            "PC1": {"type": "gP", "params": (lambda a: {"v": a["context"]["one"]})},
            "PC0": {"type": "gP", "params": (lambda a: {"v": a["context"]["zero"]})},
            # params that are present but FALSY (an empty object, a computed empty list): the guard
            # takes a third argument and must still receive it
            "PZ1": {"type": "gZ", "params": {}},
            "PZ0": {"type": "gZ0", "params": (lambda a: [])},
            "SA": {"type": "stateIn", "params": {"state": "#m.a.p.us"}},
            "SAb": {"type": "stateIn", "params": {"state": "p.us"}},
            "SI": {"type": "stateIn", "params": {"state": "#m.b"}},
            # inactive state `m.b.s`; the active leaf's id merely ENDS with the same letters
            "SIx": {"type": "stateIn", "params": {"state": "s"}},
        }[e]
    kids = [to_cfg(c, spelling, late) for c in e[1:]]
    if e[0] == "not":
        if spelling == "params":
            return {"type": "not", "params": {"guard": kids[0]}}
        return {"type": "not", "children": kids}
    if spelling == "params":
        return {"type": e[0], "params": {"guards": kids}}
    return {"type": e[0], "children": kids}


# guards that are false / true but share their *type* (and shape) with atoms of the formula
# under test: candidates evaluated in the same selection pass must not influence each other
FALSE_GUARDS = ["gF", {"type": "gP", "params": {"v": 0}}, {"type": "gF", "params": {"unused": 1}},
                {"type": "stateIn", "params": {"state": "#m.b"}},
                {"type": "and", "children": [{"type": "gP", "params": {"v": 0}}, "gT"]},
                {"type": "not", "children": [{"type": "gP", "params": {"v": 1}}]}]
TRUE_GUARDS = [None, {"type": "gP", "params": {"v": 1}}, {"type": "gT", "params": {"unused": 1}},
               {"type": "stateIn", "params": {"state": "#m.a.p.us"}},
               {"type": "or", "children": [{"type": "gP", "params": {"v": 1}}, "gF"]}]


def build(e, spelling, position, key, salt=0):
    g = to_cfg(e, spelling, late=(position == "late-region"))
    gF = FALSE_GUARDS[salt % len(FALSE_GUARDS)]
    gFall = TRUE_GUARDS[(salt // len(FALSE_GUARDS)) % len(TRUE_GUARDS)]

    def cand(guard, action):
        d = {"actions": [action]}
        if guard == "gF":
            guard = gF
        if action == "fallback":
            guard = gFall
        if guard is not None:
            d[key] = guard
        return d
    s_on, p_on, a_on = {"PROBE": {"actions": ["probe"]}}, {}, {}
    if position in ("cand0", "cand1", "cand2"):
        n = int(position[-1])
        s_on["E"] = [cand("gF", "wrong")] * n + [cand(g, "fire"), cand(None, "fallback")]
    elif position == "parent":
        p_on["E"] = [cand(g, "fire"), cand(None, "fallback")]
    elif position == "grandparent":
        a_on["E"] = [cand(g, "fire"), cand(None, "fallback")]
    elif position == "ancestor-fallback":
        s_on["E"] = [cand(g, "fire")]
        p_on["E"] = [cand("gF", "wrong")]
        a_on["E"] = [cand(None, "fallback")]
    elif position == "choose":
        s_on["E"] = {"actions": [{"type": "xstate.choose", "params": {"conditions": [
            {key: g, "actions": ["fire"]}, {"actions": ["fallback"]}]}}]}
    elif position == "enq":
        def cb(a, _g=g):
            a["enqueue"]("fire" if a["check"](_g) else "fallback")
        s_on["E"] = {"actions": [{"type": "xstate.enqueueActions", "params": {"callback": cb}}]}
    if position == "late-region":
        # `us` is parallel: region c (entered and examined first) moves on E and swaps the context
        # values computed params read; region w holds the guarded candidate.  Guards are decided
        # when the event's transitions are SELECTED - against the configuration and context the
        # event arrived in - not again when each transition is executed.
        flip = {"type": "xstate.assign", "params": {"assignment": {"one": 0, "zero": 1}}}
        us = {"type": "parallel", "states": {
            "c": {"initial": "i", "states": {"i": {"on": {"E": {"target": "j", "actions": [flip]}}}, "j": {}}},
            "w": {"initial": "w1", "states": {"w1": {"on": {
                "PROBE": {"actions": ["probe"]},
                "E": [cand(g, "fire"), cand(None, "fallback")]}}}}}}
        return {"id": "m", "initial": "a", "context": {"one": 1, "zero": 0}, "states": {
            "a": {"initial": "p", "states": {"p": {"initial": "us", "states": {"us": us}}}},
            "b": {"initial": "s", "states": {"s": {}}}}}
    return {"id": "m", "initial": "a", "context": {"one": 1, "zero": 0}, "states": {
        "a": {"initial": "p", "on": a_on, "states": {
            "p": {"initial": "us", "on": p_on, "states": {"us": {"on": s_on}}}}},
        "b": {"initial": "s", "states": {"s": {}}}}}


class _Obj2:
    """A guard implemented as a callable object, (context, event)."""
    def __init__(self, f):
        self.f = f

    def __call__(self, context, event):
        return self.f(context, event)


class _Obj3:
    """A guard implemented as a callable object, (context, event, params)."""
    def __init__(self, f):
        self.f = f

    def __call__(self, context, event, params):
        return self.f(context, event, params)


def _as_kind(f, arity, kind):
    """The same predicate as a plain function, a callable object, a functools.partial or a
    functools.wraps-decorated wrapper - all are callables a user may register."""
    import functools
    if kind == 1:
        return _Obj2(f) if arity == 2 else _Obj3(f)
    if kind == 2:
        if arity == 2:
            return functools.partial(lambda tag, c, e: f(c, e), "bound")
        return functools.partial(lambda tag, c, e, params: f(c, e, params), "bound")
    if kind == 3:
        @functools.wraps(f)
        def wrapper(*a, **k):
            return f(*a, **k)
        return wrapper
    return f


def logic(fired, salt=0):
    def mk(n):
        return lambda i, c, e, a, _n=n: fired.append(_n)

    def gR(c, e):
        raise RuntimeError("guard raised")
    impl = {"gT": (lambda c, e: True, 2), "gF": (lambda c, e: False, 2), "gR": (gR, 2),
            "gP": (lambda c, e, params: params["v"] == 1, 3),
            "gZ": (lambda c, e, params: params == {}, 3),
            "gZ0": (lambda c, e, params: params != [], 3)}
    kind = (salt // 3) % 4
    return MachineLogic(
        actions={n: mk(n) for n in ("fire", "fallback", "wrong", "probe")},
        guards={n: _as_kind(f, ar, kind) for n, (f, ar) in impl.items()})


def run_one(res: Result, e, spelling, position, key, engine, salt=0):
    fired = []
    cfg = build(e, spelling, position, key, salt)
    try:
        machine = create_machine(cfg, logic=logic(fired, salt))
    except Exception as exc:  # noqa: BLE001
        res.violation("C06:create-machine-raised-%s" % type(exc).__name__,
                      "create_machine raised %r for guard %r" % (exc, e),
                      {"expr": repr(e), "spelling": spelling, "position": position, "key": key})
        return
    value, judged = eval_guard(e)
    exc_seen = [None]
    errors = [0]
    if engine == "sync":
        it = SyncInterpreter(machine).start()
        with LogCapture(logging.ERROR) as cap:
            try:
                it.send(Event(type="E"))
            except Exception as x:  # noqa: BLE001
                exc_seen[0] = x
        errors[0] = cap.count(logging.ERROR)
        after_e = list(fired)
        try:
            it.send(Event(type="PROBE"))
        except Exception as x:  # noqa: BLE001
            exc_seen.append(x)
        status = it.status
        it.stop()
    else:
        after_e = []
        st = {}

        async def body():
            it = Interpreter(machine)
            await it.start()
            with LogCapture(logging.ERROR) as cap:
                try:
                    await it.send(Event(type="E"))
                    await drain(it)
                except Exception as x:  # noqa: BLE001
                    exc_seen[0] = x
            errors[0] = cap.count(logging.ERROR)
            after_e.extend(fired)
            await it.send(Event(type="PROBE"))
            await drain(it)
            st["status"] = it.status
            await it.stop()
        run_virtual(body)
        status = st.get("status")
    res.evaluations += 1
    res.count("runs." + engine)
    res.count("position." + position)
    res.count("guard-implementation-kind.%d" % ((salt // 3) % 4))
    composite = not isinstance(e, str)
    if composite or e in ("R", "M"):
        res.hashes.add(h([repr(e), spelling, position, key, engine]))
    probe_ok = fired[-1:] == ["probe"] and status == "running"
    wit = {"expr": repr(e), "spelling": spelling, "position": position, "key": key,
           "engine": engine, "fired": after_e, "expected_value": value,
           "exception": repr(exc_seen[0]), "error_records": errors[0]}
    tag = "%s/%s" % ("composite" if composite else "atom:" + e, position)
    if not probe_ok:
        res.violation("C06:interpreter-disturbed-after-guard/%s" % ("missing" if value == "missing"
                      else "raising" if _contains(e, "R") else "plain"),
                      "probe event not handled normally after guard evaluation (fired %r, status %s)"
                      % (fired, status), wit)
        return
    if not judged:
        res.count("unjudged.raise-under-not")
        return
    if value == "missing":
        res.count("judged.missing-reached")
        reported = isinstance(exc_seen[0], LIBMISSING) or errors[0] > 0
        if position in ("choose", "enq"):
            ok = after_e == [] and reported
        elif engine == "sync":
            ok = after_e == [] and isinstance(exc_seen[0], LIBMISSING)
        else:
            ok = after_e == [] and errors[0] > 0
        if not ok:
            res.violation("C06:missing-guard-not-reported/%s/%s" % (position, engine),
                          "missing guard reached: fired %r, exception %r, ERROR records %d" % (
                              after_e, exc_seen[0], errors[0]), wit)
        return
    if has_unreached_missing(e):
        res.count("judged.missing-unreached")
        if isinstance(exc_seen[0], LIBMISSING) or (after_e == [] and errors[0] > 0):
            res.count("missing-unreached.error(allowed)")
            return
    if exc_seen[0] is not None:
        res.violation("C06:exception-from-send/%s" % type(exc_seen[0]).__name__,
                      "send() raised %r for a guard without a reachable missing atom" % (exc_seen[0],),
                      wit)
        return
    expect = ["fire"] if value else ["fallback"]
    res.count("judged.true" if value else "judged.false")
    if after_e != expect:
        if value and after_e != ["fire"]:
            k = "true-guard-did-not-fire"
        elif "fire" in after_e:
            k = "false-guard-fired"
        elif "wrong" in after_e:
            k = "false-candidate-fired"
        else:
            k = "fallback-not-eligible-after-false-guard"
        res.violation("C06:%s/%s/%s" % (k, "cond" if key == "cond" else "guard", _kind(e)),
                      "guard %r (%s, %s, %s): fired %r, expected %r" % (
                          e, spelling, position, key, after_e, expect), wit)


def _contains(e, a):
    return e == a if isinstance(e, str) else any(_contains(c, a) for c in e[1:])


def _kind(e):
    if isinstance(e, str):
        return {"T": "named", "F": "named", "R": "raising", "M": "missing"}.get(
            e, "stateIn" if e.startswith("S") else "parameterised")
    return e[0] + ("+raising" if _contains(e, "R") else "") + \
        ("+stateIn" if any(_contains(e, s) for s in ("SA", "SI", "SAb", "SIx")) else "") + \
        ("+params" if any(_contains(e, s) for s in ("P1", "P0", "PC1", "PC0", "PZ1", "PZ0")) else "")


def run_chunk(spec):
    observe.quiet_logs()
    res = Result()
    tier, ci = spec["tier"], spec["chunk"]
    wd = Watchdog(res, 400.0)
    only = spec.get("only_case")
    n = 0
    depth = 1 if tier == "quick" else 2
    all_e = list(exprs(depth))
    res.count("formulas.enumerated", len(all_e) if ci == 0 else 0)
    i = 0
    for e in all_e:
        composite = not isinstance(e, str)
        d2 = composite and any(not isinstance(c, str) for c in e[1:])
        for spelling in (("children", "params") if composite else ("children",)):
            # depth-2 formulas: every formula at one rotating position/key/engine;
            # depth<=1 formulas: the full cross product
            if d2:
                combos = [(POSITIONS[(i + ci) % len(POSITIONS)], "guard" if i % 5 else "cond",
                           "sync" if i % 3 else "async")]
            else:
                combos = [(p, k, en) for p in POSITIONS for k in ("guard", "cond")
                          for en in ("sync", "async")]
            for (position, key, engine) in combos:
                i += 1
                if i % NCHUNKS != ci:
                    continue
                if i % 2048 == ci:
                    wd.arm("i=%d" % i)
                run_one(res, e, spelling, position, key, engine, salt=i)
                if n < 1 and ci == 0 and composite:
                    res.sample({"expr": repr(e), "spelling": spelling, "position": position,
                                "key": key, "engine": engine, "config": repr(build(e, spelling, position, key))[:900]})
                    n += 1
    # sampled deeper formulas
    rng = rng_for(spec["seed"], ID, ci, "deep")
    pool = all_e
    for j in range(400 if tier == "quick" else 60000):
        a, b, c = rng.choice(pool), rng.choice(pool), rng.choice(pool)
        op = rng.choice(["and", "or"])
        e = rng.choice([(op, a, ("not", b)), ("not", (op, a, b)), (op, a, b, c)])
        if j % 512 == 0:
            wd.arm("deep=%d" % j)
        run_one(res, e, rng.choice(["children", "params"]), rng.choice(POSITIONS),
                rng.choice(["guard", "cond"]), rng.choice(["sync", "async"]), salt=j)
        res.count("formulas.sampled-deeper")
    wd.disarm()
    return res.to_json()


def quota(counters, tier):
    out = []
    for k in ("judged.true", "judged.false", "judged.missing-reached", "judged.missing-unreached",
              "runs.sync", "runs.async", "position.choose", "position.enq",
              "position.ancestor-fallback", "position.late-region", "formulas.sampled-deeper",
              "guard-implementation-kind.1", "guard-implementation-kind.2", "guard-implementation-kind.3"):
        if counters.get(k, 0) == 0:
            out.append("monitor-never-reached:" + k)
    return out
