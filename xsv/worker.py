"""Worker entry: `python -m xsv.worker Cxx` with a JSON chunk spec on stdin."""
import importlib
import json
import sys
import traceback


def main():
    pid = sys.argv[1]
    spec = json.loads(sys.stdin.read())
    from xsv import observe
    observe.quiet_logs()
    prop = importlib.import_module(f"xsv.props.{pid.lower()}")
    try:
        res = prop.run_chunk(spec)
    except BaseException:
        traceback.print_exc()
        sys.stderr.flush()
        raise
    sys.stdout.write("\nXSVRESULT " + json.dumps(res, default=str) + "\n")
    sys.stdout.flush()


if __name__ == "__main__":
    main()
