"""Seeded generators: statechart trees, transitions, logic plans, configs.

Everything produced here is plain data (JSON-able "plan") plus a small tree
model the oracles use.  The library's own parser/resolver is never consulted:
the generator records, for every transition, the *intended* target node.

State keys are unique within a machine (s0..sN), so every target spelling the
generator emits denotes exactly one state under any reading of the documented
resolution rules.
"""
from __future__ import annotations

import random
from typing import Any, Dict, List, Optional

MID = "m"  # machine id
P_MAXIT = 60  # keeps accidental feedback loops cheap


class Node:
    __slots__ = ("key", "id", "kind", "parent", "children", "initial", "hist",
                 "hist_default", "custom_id", "depth", "index", "output", "dup_keys", "dup_spell_any")

    def __init__(self, key: str, kind: str, parent: Optional["Node"]):
        self.key = key
        self.kind = kind  # compound | parallel | atomic | final | history
        self.parent = parent
        self.id = f"{parent.id}.{key}" if parent else key
        self.children: List[Node] = []
        self.initial: Optional[str] = None
        self.hist: Optional[str] = None
        self.hist_default: Optional[Node] = None
        self.custom_id: Optional[str] = None
        self.depth = parent.depth + 1 if parent else 0
        self.index = -1
        self.output: Any = None

    # -- structure helpers -------------------------------------------------
    def ancestors(self, include_self=False):
        n = self if include_self else self.parent
        while n is not None:
            yield n
            n = n.parent

    def is_desc_of(self, other: "Node") -> bool:
        return any(a is other for a in self.ancestors(include_self=True))

    def subtree(self):
        yield self
        for c in self.children:
            yield from c.subtree()

    def real_children(self):
        return [c for c in self.children if c.kind != "history"]

    def child(self, key):
        for c in self.children:
            if c.key == key:
                return c
        return None

    def __repr__(self):
        return f"<{self.kind} {self.id}>"


class Tree:
    def __init__(self, root: Node):
        self.root = root
        self.order: List[Node] = list(root.subtree())
        for i, n in enumerate(self.order):
            n.index = i
        self.by_id: Dict[str, Node] = {n.id: n for n in self.order}

    def __getitem__(self, sid: str) -> Node:
        return self.by_id[sid]


class Trans:
    """Metadata of one generated transition."""
    __slots__ = ("tid", "source", "event", "kind", "target", "spelling", "guard",
                 "reenter", "marker", "pos", "delay", "forbidden", "actions")

    def __init__(self, tid, source, event, kind, target, spelling, guard, reenter,
                 pos, delay=None, forbidden=False):
        self.tid = tid
        self.source: Node = source
        self.event: str = event          # user event type, "" for always
        self.kind: str = kind            # on | always | onDone | after | invDone | invError
        self.target: Optional[Node] = target
        self.spelling: Optional[str] = spelling
        self.guard = guard               # None | atom name | guard expr dict
        self.reenter = reenter
        self.marker = f"tr.{tid}"
        self.pos = pos                   # position in its candidate list
        self.delay = delay
        self.forbidden = forbidden
        self.actions: List[Any] = []

    def relation(self) -> str:
        s, t = self.source, self.target
        if t is None:
            return "targetless"
        if t is s:
            return "self-reenter" if self.reenter else "self-internal"
        if t.kind == "history":
            inside = s.is_desc_of(t.parent)
            return ("hist-%s-%s-%s" % (t.hist, t.parent.kind, "inside" if inside else "outside"))
        if s.is_desc_of(t):
            return "ancestor"
        if t.is_desc_of(s):
            return "descendant"
        if t.parent is s.parent:
            return "sibling"
        return "cousin"


class Case:
    """A generated machine: tree model + plan (JSON-able config with $-placeholders)."""

    def __init__(self):
        self.tree: Tree = None  # type: ignore
        self.plan: Dict[str, Any] = {}
        self.trans: List[Trans] = []
        self.by_marker: Dict[str, Trans] = {}
        self.events: List[str] = []
        self.atoms: List[str] = []
        self.context: Dict[str, Any] = {}
        self.profile: Dict[str, Any] = {}
        self.services: Dict[str, Any] = {}
        self.delays: Dict[str, Any] = {}
        self.invokes: Dict[str, Any] = {}

    def handlers_of(self, node: Node):
        return [t for t in self.trans if t.source is node]


# ---------------------------------------------------------------------------
# profiles
# ---------------------------------------------------------------------------
BASE = dict(
    max_depth=3, max_fan=3, min_fan=2, p_compound=0.35, p_parallel=0.2, p_final=0.08,
    p_history=0.0, p_hist_deep=0.5, p_hist_default=0.4, p_custom_id=0.15,
    events=["A", "B", "C", "D"], p_handle=0.45, max_cands=2, p_guard=0.25,
    p_guard_raise=0.0, p_always=0.0, p_ondone=0.0, p_raise=0.0, p_effects=0.0,
    p_root_on=0.3, p_root_final=0.05, p_target_root=0.02, p_targetless=0.12,
    p_self=0.12, p_hist_target=0.0, p_forbidden=0.0, final_out=False,
    p_parallel_root=0.15, p_after=0.0, max_states=40, p_final_trans=0.0,
    wild=False, p_internal_false=0.0, p_invoke=0.0, p_invoke_fail=0.3, ondone_forward=True,
    p_prefix_key=0.12,
    # share of atom guards written as ONE parameterised predicate `gP` (static params, computed
    # params, params whose computation raises for the raising atom, a two-argument guard handed
    # params it ignores): candidates then share a guard name but not a verdict
    p_guard_obj=0.0,
    # raises written with an explicit zero delay (0 / 0.0 / computed 0): still "at once";
    # p_raise2: a second raise on the same transition, so that their order is observable
    p_raise_d0=0.0, p_raise2=0.0,
)

PROFILES: Dict[str, Dict[str, Any]] = {
    "core": dict(BASE),
    "history": dict(BASE, p_history=0.45, p_hist_target=0.35, p_parallel=0.3),
    "select": dict(BASE, events=["A", "B"], p_handle=0.6, max_cands=3, p_guard=0.6,
                   p_guard_raise=0.15, p_parallel=0.35, max_depth=4, p_final=0.0,
                   p_root_final=0.0, p_targetless=0.25, p_root_on=0.6),
    "effects": dict(BASE, p_raise=0.3, p_effects=0.5, p_always=0.25, p_ondone=0.5,
                    p_final=0.15),
    "done": dict(BASE, p_final=0.3, p_ondone=0.8, p_parallel=0.35, final_out=True,
                 p_root_final=0.15, p_final_trans=0.25, p_history=0.15),
    "full": dict(BASE, p_history=0.3, p_hist_target=0.25, p_raise=0.2, p_effects=0.3,
                 p_always=0.2, p_ondone=0.5, p_final=0.15, p_parallel=0.3,
                 final_out=True),
}


def profile(name: str, **over) -> Dict[str, Any]:
    p = dict(PROFILES[name])
    p.update(over)
    p["name"] = name
    return p


# ---------------------------------------------------------------------------
# tree generation
# ---------------------------------------------------------------------------
def gen_tree(rng: random.Random, P: Dict[str, Any]) -> Tree:
    counter = [0]

    p_dup = P.get("p_dup_key", 0.0)

    p_prefix = P.get("p_prefix_key", 0.0)

    def newkey(parent=None):
        counter[0] += 1
        if parent is not None and p_prefix and parent.children and rng.random() < p_prefix:
            # a sibling whose name merely EXTENDS another sibling's name ("pay" / "payment"):
            # id-prefix tests without the '.' separator confuse the two subtrees
            # (half of them continue with '-', which sorts BEFORE the '.' separator: whole ids then
            #  order differently from their segment lists)
            base = rng.choice(parent.children).key
            ext = "x" if rng.random() < 0.5 else "-x"
            k = base + ext
            while any(c.key == k for c in parent.children):
                k += "x"
            return k
        if parent is not None and p_dup and rng.random() < p_dup:
            # local names are only unique among siblings: reuse a few names across parents
            used = {c.key for c in parent.children}
            free = [k for k in ("d0", "d1", "d2", "d3") if k not in used]
            if free:
                return rng.choice(free)
        return f"s{counter[0] - 1}"

    root_kind = "parallel" if rng.random() < P["p_parallel_root"] else "compound"
    root = Node(MID, root_kind, None)

    def populate(node: Node):
        depth = node.depth
        nkids = rng.randint(P["min_fan"], P["max_fan"])
        for _ in range(nkids):
            if counter[0] >= P["max_states"]:
                break
            r = rng.random()
            can_nest = depth + 1 < P["max_depth"] and counter[0] < P["max_states"] - 3
            if can_nest and r < P["p_compound"]:
                kind = "compound"
            elif can_nest and r < P["p_compound"] + P["p_parallel"]:
                kind = "parallel"
            elif node.kind == "compound" and rng.random() < (
                    P["p_root_final"] if node is root else P["p_final"]):
                kind = "final"
            else:
                kind = "atomic"
            c = Node(newkey(node), kind, node)
            node.children.append(c)
            if kind in ("compound", "parallel"):
                populate(c)
            if kind == "final" and P["final_out"] and rng.random() < 0.7:
                c.output = {"out": c.key}
                if P.get("p_falsy_out") and rng.random() < P["p_falsy_out"]:
                    # a declared output that happens to be falsy is still an output
                    c.output = rng.choice([0, False, "", [], {}, 0.0])
        # make sure a compound has at least one non-final child to start in
        if node.kind == "compound":
            nonfinal = [c for c in node.children if c.kind != "final"]
            if not nonfinal:
                c = Node(newkey(), "atomic", node)
                node.children.insert(0, c)
                nonfinal = [c]
            node.initial = rng.choice(nonfinal).key if rng.random() < 0.8 else \
                rng.choice(node.children).key
        if node.kind == "parallel" and len(node.children) < 2:
            node.children.append(Node(newkey(), "atomic", node))
        # history child
        if node.kind in ("compound", "parallel") and rng.random() < P["p_history"]:
            h = Node(newkey(), "history", node)
            h.hist = "deep" if rng.random() < P["p_hist_deep"] else "shallow"
            node.children.insert(rng.randint(0, len(node.children)), h)
        if node.kind in ("compound", "parallel") and rng.random() < P["p_history"] * 0.25:
            h = Node(newkey(), "history", node)
            h.hist = "deep" if rng.random() < P["p_hist_deep"] else "shallow"
            node.children.append(h)

    populate(root)
    root.dup_keys = bool(p_dup)
    root.dup_spell_any = bool(P.get("dup_spell_any", False))
    tree = Tree(root)
    # history defaults + custom ids
    for n in tree.order:
        if n.kind == "history" and rng.random() < P["p_hist_default"]:
            sibs = [c for c in n.parent.children if c.kind != "history"]
            if sibs:
                s = rng.choice(sibs)
                # sometimes a deeper default
                deeper = [d for d in s.subtree() if d.kind != "history"]
                n.hist_default = rng.choice(deeper) if rng.random() < 0.3 else s
        if n is not root and n.kind != "history" and rng.random() < P["p_custom_id"]:
            n.custom_id = f"cid_{n.key}" if not p_dup else f"cid_{n.index}_{n.key}"
    return tree


# ---------------------------------------------------------------------------
# target spelling
# ---------------------------------------------------------------------------
def spellings(source: Node, target: Node) -> Dict[str, str]:
    """All spellings that denote `target` when written on `source` (unique keys)."""
    out: Dict[str, str] = {}
    out["abs"] = "#" + target.id
    if target.custom_id:
        out["cid"] = "#" + target.custom_id
    if target.parent is not None:
        out["bare"] = target.key
    # dotted path from a child of an ancestor-or-self of source
    for a in source.ancestors(include_self=True):
        if target is not a and target.is_desc_of(a):
            rel = target.id[len(a.id) + 1:]
            if "." in rel:
                out["dotted"] = rel
            break
    # leading-dot: relative to source.parent
    base = source.parent or source
    if target is not base and target.is_desc_of(base):
        out["reldot"] = "." + target.id[len(base.id) + 1:]
    # custom-id anchored path
    for a in target.ancestors():
        if a.custom_id and a.parent is not None:
            out["cidpath"] = "#" + a.custom_id + "." + target.id[len(a.id) + 1:]
            break
    return out


def spell(rng: random.Random, source: Node, target: Node) -> str:
    sp = spellings(source, target)
    kinds = sorted(sp)
    top = source
    while top.parent is not None:
        top = top.parent
    if getattr(top, "dup_keys", False) and not getattr(top, "dup_spell_any", False):
        # with local names reused across parents only id-anchored spellings are unambiguous
        kinds = [k for k in kinds if k in ("abs", "cid", "cidpath")]
    # prefer variety but weight bare/abs
    k = rng.choice(kinds)
    return sp[k]


# ---------------------------------------------------------------------------
# machine generation
# ---------------------------------------------------------------------------
def _dca(a: Node, b: Node) -> Node:
    anc = set(id(x) for x in a.ancestors(include_self=True))
    for x in b.ancestors(include_self=True):
        if id(x) in anc:
            return x
    return a


def gen_case(rng: random.Random, P: Dict[str, Any]) -> Case:
    case = Case()
    case.profile = P
    tree = gen_tree(rng, P)
    case.tree = tree
    case.events = list(P["events"])
    natoms = 4
    case.atoms = [f"g{i}" for i in range(natoms)]
    if P["p_guard_raise"] > 0:
        case.atoms.append("gR")
    case.context = {"b": 5, "n": 0, "log": []}
    tid = [0]
    states = [n for n in tree.order if n.kind != "history"]
    hist_nodes = [n for n in tree.order if n.kind == "history"]

    def pick_target(src: Node):
        r = rng.random()
        if r < P["p_targetless"]:
            return None, False
        if r < P["p_targetless"] + P["p_self"]:
            return src, rng.random() < 0.5
        if hist_nodes and rng.random() < P["p_hist_target"]:
            return rng.choice(hist_nodes), False
        if rng.random() < P["p_target_root"]:
            return tree.root, False
        cands = [n for n in states if n is not tree.root and n is not src]
        if not cands:
            return None, False
        # bias: sibling 30%, relatives otherwise
        sibs = [n for n in cands if n.parent is src.parent]
        if sibs and rng.random() < 0.3:
            return rng.choice(sibs), False
        return rng.choice(cands), False

    def pick_guard():
        if rng.random() >= P["p_guard"]:
            return None
        if P["p_guard_raise"] and rng.random() < P["p_guard_raise"]:
            return "gR"
        return rng.choice(case.atoms[:natoms])

    def mk(source, event, kind, pos, *, forward_only=False, delay=None, targetless_ok=False):
        target, reenter = pick_target(source)
        if forward_only:
            # eventless transitions must strictly move forward in document order
            # (and leave the source's subtree) so they cannot cycle.
            last = max(d.index for d in source.subtree())
            # The deepest common ancestor must not be a parallel state: this
            # library re-enters only the target's region there and leaves the
            # source active, so the transition would stay enabled forever.
            fwd = [n for n in states if n.index > last and n.kind != "final"
                   and not source.is_desc_of(n) and _dca(source, n).kind != "parallel"]
            if not fwd:
                if not targetless_ok:
                    return None
                target, reenter = None, False
            else:
                target, reenter = rng.choice(fwd), False
        spelling = spell(rng, source, target) if target is not None else None
        t = Trans(tid[0], source, event, kind, target, spelling, pick_guard(), reenter,
                  pos, delay=delay)
        tid[0] += 1
        t.actions = [t.marker]
        case.trans.append(t)
        return t

    for s in states:
        if s.kind == "final" and rng.random() >= P["p_final_trans"]:
            continue
        p_h = P["p_root_on"] * P["p_handle"] if s is tree.root else P["p_handle"]
        keys = list(case.events)
        if P.get("wild"):
            # event descriptors: 'x.*' for every dotted event type's prefix, and the bare wildcard
            keys += sorted({e.rsplit(".", 1)[0] + ".*" for e in case.events if "." in e}) + ["*"]
        for ev in keys:
            if rng.random() < p_h * (0.6 if ev.endswith("*") else 1.0):
                if P["p_forbidden"] and rng.random() < P["p_forbidden"]:
                    t = Trans(tid[0], s, ev, "on", None, None, None, False, 0, forbidden=True)
                    tid[0] += 1
                    case.trans.append(t)
                    continue
                for pos in range(rng.randint(1, P["max_cands"])):
                    mk(s, ev, "on", pos)
        if s.kind != "final" and s is not tree.root and rng.random() < P["p_always"]:
            t = mk(s, "", "always", 0, forward_only=not P.get("loops", False))
            if t is not None and t.guard is None and rng.random() < 0.5:
                t.guard = rng.choice(case.atoms[:natoms])
            # (profiles that ask for it get candidate LISTS of eventless transitions)
            for pos in range(1, rng.randint(1, P.get("max_always", 1))):
                t2 = mk(s, "", "always", pos, forward_only=not P.get("loops", False))
                if t2 is not None and t2.guard is None and rng.random() < 0.6:
                    t2.guard = rng.choice(case.atoms[:natoms])
        if s.kind != "final" and s is not tree.root and rng.random() < P["p_invoke"]:
            iid = f"inv_{s.key}"
            sname = f"svc_{s.key}"
            fails = rng.random() < P["p_invoke_fail"]
            case.services[sname] = {"mode": "raise" if fails else "ret", "value": len(case.services)}
            inv = {"src": sname, "id": iid, "input": {"who": s.key}}
            case.invokes[s.id] = inv
            td = mk(s, f"done.invoke.{iid}", "invDone", 0, forward_only=not P.get("loops", False),
                    targetless_ok=True)
            td.guard = None
            unhandled = fails and P.get("p_unhandled_fail", 0.0) and rng.random() < P["p_unhandled_fail"]
            if not unhandled and (fails or rng.random() < 0.5):
                te = mk(s, f"error.platform.{iid}", "invError", 0,
                        forward_only=not P.get("loops", False), targetless_ok=True)
                te.guard = None
        if s.kind != "final" and rng.random() < P["p_after"]:
            for pos, delay in enumerate(rng.sample(P.get("after_delays", [100000, 200000, 300000]),
                                                   rng.randint(1, 2))):
                mk(s, f"after.{delay}.{s.id}", "after", 0, delay=delay,
                   forward_only=P.get("after_forward", False), targetless_ok=True)
        if s.kind in ("compound", "parallel") and s is not tree.root \
                and rng.random() < P["p_ondone"]:
            has_final = any(d.kind == "final" for d in s.subtree())
            if has_final:
                t = mk(s, f"done.state.{s.id}", "onDone", 0,
                       forward_only=P.get("ondone_forward", True), targetless_ok=True)
                t.guard = None

    # effects: extra builtin actions sprinkled on transitions / entry / exit
    fx: Dict[str, List[Any]] = {}
    if P["p_effects"] or P["p_raise"]:
        for t in case.trans:
            if t.kind == "on" and rng.random() < P["p_raise"]:
                later = list(case.events) if P.get("loops") else [e for e in case.events if e > t.event]
                if later:
                    t.actions.append({"$": "raise", "ev": rng.choice(later)})
                    if P["p_raise_d0"] and rng.random() < P["p_raise_d0"]:
                        t.actions[-1]["d0"] = rng.choice([1, 2, 3])
                    if P["p_raise2"] and rng.random() < P["p_raise2"]:
                        t.actions.append({"$": "raise", "ev": rng.choice(later)})
                        if P["p_raise_d0"] and rng.random() < P["p_raise_d0"] * 0.5:
                            t.actions[-1]["d0"] = rng.choice([1, 2, 3])
            if rng.random() < P["p_effects"]:
                t.actions.append(_rand_effect(rng, case, f"fx.t{t.tid}"))
        for s in states:
            if rng.random() < P["p_effects"] * 0.4:
                fx.setdefault("en:" + s.id, []).append(_rand_effect(rng, case, f"fx.en.{s.key}"))
            if rng.random() < P["p_effects"] * 0.3:
                fx.setdefault("ex:" + s.id, []).append(_rand_effect(rng, case, f"fx.ex.{s.key}"))
            if s is not tree.root and rng.random() < P["p_raise"] * 0.4:
                fx.setdefault("en:" + s.id, []).append(
                    {"$": "raise" if P.get("loops") else "braise", "ev": rng.choice(case.events)})
    case.by_marker = {t.marker: t for t in case.trans}
    case.plan = build_plan(case, fx)
    return case


#: optional hook called at the start of every harness-built callback of a built-in action
#: (assign value, pure getter, enqueueActions callback, log expression); C07 makes it raise.
CALLBACK_HOOK = {"fn": None}


def _cb(kind):
    fn = CALLBACK_HOOK["fn"]
    if fn is not None:
        fn(kind)


def _rand_effect(rng, case, tag):
    r = rng.random()
    if case.profile.get("p_neutral_fx") and rng.random() < case.profile["p_neutral_fx"]:
        return rng.choice([{"$": "emit", "ev": rng.choice(["X", "Y"])}, {"$": "logcb", "tag": tag}])
    if case.profile.get("p_push_fx") and rng.random() < case.profile["p_push_fx"]:
        # an updater that mutates a NESTED container of the context in place
        return {"$": "push", "val": rng.randint(0, 9)}
    if r < 0.3:
        return {"$": "inc", "key": "n"}
    if r < 0.45:
        return {"$": "set", "key": rng.choice(["x", "y"]), "val": rng.randint(0, 9)}
    if r < 0.65:
        return {"$": "choose", "branches": [
            {"guard": rng.choice(case.atoms[:4]), "actions": [tag + ".c1", {"$": "inc", "key": "n"}]},
            {"actions": [tag + ".c2"]}]}
    if r < 0.8:
        return {"$": "pure", "actions": [tag + ".p1", {"$": "set", "key": "x", "val": rng.randint(0, 9)}]}
    return {"$": "enq", "actions": [tag + ".q1", {"$": "inc", "key": "n"}],
            "check": rng.choice(case.atoms[:4])}


def state_markers(node: Node):
    return ([f"en.{node.id}.a", f"en.{node.id}.b"], [f"ex.{node.id}.a", f"ex.{node.id}.b"])


def build_plan(case: Case, fx: Optional[Dict[str, List[Any]]] = None) -> Dict[str, Any]:
    """Plan = machine config with `$`-placeholder effect actions (JSON-able)."""
    fx = fx or {}
    tree = case.tree

    def trans_cfg(t: Trans):
        if t.forbidden:
            return None
        d: Dict[str, Any] = {}
        if t.spelling is not None:
            d["target"] = t.spelling
        if t.actions:
            d["actions"] = list(t.actions)
        if t.guard is not None:
            d["guard"] = t.guard
            pg = case.profile.get("p_guard_obj", 0.0)
            if pg and isinstance(t.guard, str) and random.Random(t.tid * 7919 + 13).random() < pg:
                d["guard"] = {"$g": t.guard, "form": t.tid % 4}
        if t.reenter:
            d["reenter"] = True
        return d

    def state_cfg(n: Node):
        d: Dict[str, Any] = {}
        if n is tree.root:
            d["id"] = MID
            d["context"] = dict(case.context)
            d["maxIterations"] = case.profile.get("maxit", P_MAXIT)
        elif n.custom_id:
            d["id"] = n.custom_id
        if n.kind == "history":
            d["type"] = "history"
            d["history"] = n.hist
            if n.hist_default is not None:
                sp = spellings(n, n.hist_default)
                d["target"] = sp.get("bare") if n.hist_default.parent is n.parent else sp["abs"]
                # a third of the defaults are written relative to the history state's parent
                # ('.child', '.child.grandchild'), the remaining deep ones as a dotted path or '#id'
                if n.index % 3 == 1 and "reldot" in sp:
                    d["target"] = sp["reldot"]
                elif n.index % 3 == 2 and "dotted" in sp and not getattr(tree.root, "dup_keys", False):
                    d["target"] = sp["dotted"]
            return d
        if n.kind == "final":
            d["type"] = "final"
            if n.output is not None:
                d["output"] = n.output
        if n.kind == "parallel":
            d["type"] = "parallel"
        en, ex = state_markers(n)
        d["entry"] = en[:1] + list(fx.get("en:" + n.id, [])) + en[1:]
        d["exit"] = ex[:1] + list(fx.get("ex:" + n.id, [])) + ex[1:]
        on: Dict[str, Any] = {}
        always: List[Any] = []
        after: Dict[str, Any] = {}
        for t in case.handlers_of(n):
            if t.kind == "on":
                if t.forbidden:
                    on[t.event] = None
                else:
                    on.setdefault(t.event, []).append(trans_cfg(t))
            elif t.kind == "always":
                always.append(trans_cfg(t))
            elif t.kind == "onDone":
                d["onDone"] = trans_cfg(t)
            elif t.kind == "after":
                after.setdefault(str(t.delay), []).append(trans_cfg(t))
        inv = case.invokes.get(n.id)
        if inv is not None:
            iv = dict(inv)
            for t in case.handlers_of(n):
                if t.kind == "invDone":
                    iv["onDone"] = trans_cfg(t)
                elif t.kind == "invError":
                    iv["onError"] = trans_cfg(t)
            d["invoke"] = iv
        if on:
            d["on"] = on
        if always:
            d["always"] = always
        if after:
            d["after"] = after
        if n.children:
            if n.kind == "compound":
                d["initial"] = n.initial
            d["states"] = {c.key: state_cfg(c) for c in n.children}
        return d

    return state_cfg(tree.root)


# ---------------------------------------------------------------------------
# plan -> real config (placeholders -> builtin action dicts with callables)
# ---------------------------------------------------------------------------
def materialize(plan: Any) -> Any:
    if isinstance(plan, list):
        return [materialize(x) for x in plan]
    if isinstance(plan, dict):
        if "$" in plan:
            return _mat_effect(plan)
        if "$g" in plan:
            return _mat_guard(plan)
        return {k: materialize(v) for k, v in plan.items()}
    return plan


class ParamsRaised(Exception):
    pass


def _mat_guard(e: Dict[str, Any]) -> Dict[str, Any]:
    atom, form = e["$g"], e.get("form", 0)
    if form == 1:
        return {"type": "gP", "params": (lambda a, _a=atom: {"atom": _a})}
    if form == 2 and atom == "gR":
        def boom(a):
            _cb("guard-params-raised")
            raise ParamsRaised("computing the params of gP")
        return {"type": "gP", "params": boom}
    if form == 3:
        return {"type": atom, "params": {"unused": 1}}      # a (context, event) guard given params
    return {"type": "gP", "params": {"atom": atom}}


def _mat_effect(e: Dict[str, Any]) -> Dict[str, Any]:
    k = e["$"]
    if k == "emit":
        return {"type": "xstate.emit", "params": {"event": {"type": e["ev"], "emitted": True}}}
    if k == "logcb":
        def expr(a, _t=e.get("tag", "")):
            _cb("log:" + _t)
            return "x"
        return {"type": "xstate.log", "params": {"expr": expr}}
    if k == "inc":
        key = e["key"]
        return {"type": "xstate.assign", "params": {"assignment": {
            key: (lambda a, _k=key: a["context"].get(_k, 0) + 1)}}}
    if k == "push":
        def upd(a, _v=e["val"]):
            lst = a["context"].setdefault("log", [])
            lst.append(_v)             # in place: visible through every alias of that list
            return lst
        return {"type": "xstate.assign", "params": {"assignment": {"log": upd}}}
    if k == "set":
        return {"type": "xstate.assign", "params": {"assignment": {e["key"]: e["val"]}}}
    if k == "raise":
        d = {"type": "xstate.raise", "params": {"event": {"type": e["ev"], "raised": True}}}
        if e.get("d0"):
            d["params"]["delay"] = {1: 0, 2: 0.0, 3: (lambda a: 0)}[e["d0"]]
        return d
    if k == "braise":  # budgeted raise through choose + assign + raise
        return {"type": "xstate.choose", "params": {"conditions": [
            {"guard": "hasBudget", "actions": [
                {"type": "xstate.assign", "params": {"assignment": {
                    "b": (lambda a: a["context"]["b"] - 1)}}},
                {"type": "xstate.raise", "params": {"event": {"type": e["ev"], "raised": True}}},
            ]}]}}
    if k == "choose":
        return {"type": "xstate.choose", "params": {"conditions": [
            dict(({"guard": b["guard"]} if "guard" in b else {}),
                 actions=materialize(b["actions"])) for b in e["branches"]]}}
    if k == "pure":
        acts = materialize(e["actions"])
        return {"type": "xstate.pure", "params": {"get": (lambda a, _a=acts: list(_a))}}
    if k == "enq":
        acts = materialize(e["actions"])
        chk = e.get("check")

        def cb(a, _a=acts, _c=chk):
            if _c is None or a["check"](_c):
                for x in _a:
                    a["enqueue"](x)
        return {"type": "xstate.enqueueActions", "params": {"callback": cb}}
    raise ValueError(k)


def action_names(plan: Any, acc=None) -> List[str]:
    """All user action names (strings in action positions) referenced by a plan."""
    acc = [] if acc is None else acc

    def walk_actions(a):
        if isinstance(a, str):
            acc.append(a)
        elif isinstance(a, list):
            for x in a:
                walk_actions(x)
        elif isinstance(a, dict):
            if "$" in a:
                for b in a.get("branches", []):
                    walk_actions(b.get("actions", []))
                walk_actions(a.get("actions", []))
            elif "type" in a and not str(a["type"]).startswith("xstate."):
                acc.append(a["type"])

    def walk_trans(t):
        if isinstance(t, list):
            for x in t:
                walk_trans(x)
        elif isinstance(t, dict):
            walk_actions(t.get("actions", []))

    def walk_state(s):
        walk_actions(s.get("entry", []))
        walk_actions(s.get("exit", []))
        for v in (s.get("on") or {}).values():
            walk_trans(v)
        walk_trans(s.get("always", []))
        walk_trans(s.get("onDone", []))
        for v in (s.get("after") or {}).values():
            walk_trans(v)
        inv = s.get("invoke")
        for i in (inv if isinstance(inv, list) else [inv] if inv else []):
            walk_trans(i.get("onDone", []))
            walk_trans(i.get("onError", []))
        for c in (s.get("states") or {}).values():
            walk_state(c)

    walk_state(plan)
    return acc
