"""Yield injection with sys.monitoring (3.12): LINE callbacks restricted to chosen code objects
sleep briefly with some probability, so that the engine's own threads interleave inside its
unlocked check-then-act sequences.  The Python analogue of a race detector's schedule
perturbation; it cannot create interleavings the OS scheduler could not also produce."""
from __future__ import annotations

import random
import sys
import threading
import time

TOOL = 3
_state = {"on": False, "rng": None, "p": 0.3, "lo": 50e-6, "hi": 400e-6, "hits": 0, "sleeps": 0,
          "codes": [], "lock": threading.Lock(), "sites": set()}


def _on_line(code, lineno):
    st = _state
    st["hits"] += 1
    with st["lock"]:
        r = st["rng"].random()
        d = st["rng"].uniform(st["lo"], st["hi"])
    if r < st["p"]:
        st["sleeps"] += 1
        st["sites"].add((code.co_name, lineno, threading.current_thread().name.split("-")[0]))
        time.sleep(d)


def enable(functions, seed=0, p=0.3, lo=50e-6, hi=400e-6):
    """functions: python functions / methods whose lines become yield points."""
    mon = sys.monitoring
    st = _state
    st.update(rng=random.Random(seed), p=p, lo=lo, hi=hi, hits=0, sleeps=0, sites=set())
    if not st["on"]:
        mon.use_tool_id(TOOL, "xsv-yield-injection")
        mon.register_callback(TOOL, mon.events.LINE, _on_line)
        st["on"] = True
    codes = []
    for f in functions:
        f = getattr(f, "__func__", f)
        f = getattr(f, "__wrapped__", f)
        code = getattr(f, "__code__", None)
        if code is None:
            continue
        codes.append(code)
        # nested functions (thread bodies defined inside) are constants of the outer code
        for c in code.co_consts:
            if hasattr(c, "co_code"):
                codes.append(c)
    for c in codes:
        mon.set_local_events(TOOL, c, mon.events.LINE)
    st["codes"] = codes
    sys.setswitchinterval(1e-5)
    return len(codes)


def disable():
    mon = sys.monitoring
    st = _state
    for c in st["codes"]:
        try:
            mon.set_local_events(TOOL, c, 0)
        except Exception:  # noqa: BLE001
            pass
    st["codes"] = []
    sys.setswitchinterval(0.005)


def stats():
    return {"line_hits": _state["hits"], "sleeps": _state["sleeps"], "sites": len(_state["sites"])}
