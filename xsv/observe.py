"""Observation layer: Recorder plugin, marker logic, virtual-time loop, engine drivers."""
from __future__ import annotations

import asyncio
import logging
import os
import selectors
import sys
import threading
from typing import Any, Callable, Dict, List, Optional

REPO_SRC = os.environ.get("XSV_REPO", "/repo/src")
if REPO_SRC not in sys.path:
    sys.path.insert(0, REPO_SRC)

import xstate_statemachine as xs  # noqa: E402
from xstate_statemachine import (  # noqa: E402
    Event, Interpreter, MachineLogic, PluginBase, SyncInterpreter, create_machine,
)
from xstate_statemachine.events import AfterEvent, DoneEvent  # noqa: E402

from . import gen  # noqa: E402

assert os.path.realpath(xs.__file__).startswith(os.path.realpath(REPO_SRC)), (
    "library under test must come from %s, got %s" % (REPO_SRC, xs.__file__))


def quiet_logs():
    logging.disable(logging.CRITICAL)


def loud_logs():
    logging.disable(logging.NOTSET)


class LogCapture(logging.Handler):
    """Captures records of the library's loggers (for 'is logged' clauses)."""

    def __init__(self, level=logging.WARNING):
        super().__init__(level)
        self.records: List[logging.LogRecord] = []

    def emit(self, record):
        self.records.append(record)

    def __enter__(self):
        logging.disable(logging.NOTSET)
        self._lg = logging.getLogger("xstate_statemachine")
        self._old = self._lg.level
        self._lg.setLevel(self.level)
        self._lg.addHandler(self)
        self._prop = self._lg.propagate
        self._lg.propagate = False
        return self

    def __exit__(self, *a):
        self._lg.removeHandler(self)
        self._lg.setLevel(self._old)
        self._lg.propagate = self._prop
        logging.disable(logging.CRITICAL)

    def count(self, level):
        return sum(1 for r in self.records if r.levelno >= level)


# ---------------------------------------------------------------------------
# configuration access
# ---------------------------------------------------------------------------
def config_of(interp) -> frozenset:
    """Full active configuration (ids), ancestors included."""
    nodes = getattr(interp, "_active_state_nodes", None)
    if nodes is not None:
        try:
            return frozenset(n.id for n in list(nodes))
        except RuntimeError:  # set changed size during iteration (another thread)
            return frozenset(n.id for n in list(nodes))
    return frozenset(interp.get_persisted_snapshot()["configuration"])


def ids(nodes) -> frozenset:
    return frozenset(n.id for n in list(nodes))


# ---------------------------------------------------------------------------
# Recorder
# ---------------------------------------------------------------------------
class Rec(PluginBase):
    """Plugin + marker sink.  `log` is a list of tuples, first field = kind.

      ("ev", event)                          on_event_received
      ("tx", from_ids, to_ids, transition, live_cfg)   on_transition
      ("act", name, event, cfg_at_call, thread_ident)  marker action ran
      ("guard", name, result)               guard atom evaluated (harness guard)
      ("ge", name, result)                  on_guard_evaluated hook
      ("ax", action_def)                    on_action_execute
      ("aerr", action_def, exc)             on_action_error
      ("sub", cfg, status)                  subscriber callback
      ("start",), ("stop",), ("done", output), ("error", exc)
      ("svc", what, invocation, payload)
    """

    def __init__(self, clock: Optional[Callable[[], float]] = None):
        self.log: List[tuple] = []
        self.clock = clock
        self.on_tx: Optional[Callable[..., None]] = None

    # plugin hooks
    def on_interpreter_start(self, interp):
        self.log.append(("start",))

    def on_interpreter_stop(self, interp):
        self.log.append(("stop",))

    def on_event_received(self, interp, event):
        self.log.append(("ev", event))

    def on_transition(self, interp, from_states, to_states, transition):
        rec = ("tx", ids(from_states), ids(to_states), transition, config_of(interp))
        self.log.append(rec)
        if self.on_tx is not None:
            self.on_tx(interp, rec)

    def on_action_execute(self, interp, action):
        self.log.append(("ax", action))

    def on_action_error(self, interp, action, error):
        self.log.append(("aerr", action, error))

    def on_guard_evaluated(self, interp, guard_name, event, result):
        self.log.append(("ge", guard_name, result))

    def on_service_start(self, interp, invocation):
        self.log.append(("svc", "start", invocation, None))

    def on_service_done(self, interp, invocation, result):
        self.log.append(("svc", "done", invocation, result))

    def on_service_error(self, interp, invocation, error):
        self.log.append(("svc", "error", invocation, error))

    def on_done(self, interp, output):
        self.log.append(("done", output))

    def on_error(self, interp, error):
        self.log.append(("error", error))

    # helpers
    def subscriber(self, interp):
        self.log.append(("sub", config_of(interp), interp.status))

    def actions(self, start=0):
        return [r for r in self.log[start:] if r[0] == "act"]


class GuardRaised(Exception):
    pass


def build_logic(case: "gen.Case", rec: Rec, gtable: Dict[str, Any],
                extra_actions: Optional[Dict[str, Callable]] = None,
                services: Optional[Dict[str, Any]] = None,
                delays: Optional[Dict[str, Any]] = None,
                names: Optional[List[str]] = None, yields: Optional[Dict[str, int]] = None,
                drop: Optional[List[str]] = None) -> MachineLogic:
    """Marker actions for every referenced name; table-driven guards.

    `yields` maps marker names to a number of `await asyncio.sleep(0)` yields (async engine
    only: those markers become coroutine functions); `drop` lists names left unimplemented.
    """
    log = rec.log

    def mk_action(name):
        n_y = (yields or {}).get(name, 0)
        if n_y:
            async def _amarker(interp, ctx, event, action_def, _n=name, _k=n_y):
                if _k < 0:      # negative: a slow action taking -k virtual milliseconds
                    await asyncio.sleep(-_k / 1000.0)
                for _ in range(max(_k, 0)):
                    await asyncio.sleep(0)
                log.append(("act", _n, event, config_of(interp), threading.get_ident()))
            return _amarker

        def _marker(interp, ctx, event, action_def, _n=name):
            log.append(("act", _n, event, config_of(interp), threading.get_ident()))
        _marker.__name__ = "marker"
        return _marker

    actions = {n: mk_action(n) for n in (names if names is not None
                                         else gen.action_names(case.plan))
               if not (drop and n in drop)}
    if extra_actions:
        actions.update(extra_actions)

    def mk_guard(name):
        def _guard(ctx, event):
            _n = name
            v = gtable.get(_n, False)
            log.append(("guard", _n, v))
            if v == "raise":
                raise GuardRaised(_n)
            return bool(v)
        return _guard

    # the same predicates as the kinds of callable a user may register (plain function, callable
    # object, functools.partial, functools.wraps-decorated wrapper), fixed per case
    salt = len(case.trans) + len(case.tree.order)

    def gP(ctx, event, params):
        _n = params["atom"]
        v = gtable.get(_n, False)
        log.append(("guard", _n, v))
        if v == "raise":
            raise GuardRaised(_n)
        return bool(v)
    guards = {a: _callable_kind(mk_guard(a), 2, (salt + i) % 4) for i, a in enumerate(case.atoms)}
    guards["gP"] = _callable_kind(gP, 3, salt % 4)
    guards["hasBudget"] = lambda ctx, event: ctx.get("b", 0) > 0
    return MachineLogic(actions=actions, guards=guards, services=services or {},
                        delays=delays or {})


class _Guard2:
    def __init__(self, f):
        self.f = f

    def __call__(self, context, event):
        return self.f(context, event)


class _Guard3:
    def __init__(self, f):
        self.f = f

    def __call__(self, context, event, params):
        return self.f(context, event, params)


def _callable_kind(f, arity, kind):
    import functools
    if kind == 1:
        return _Guard2(f) if arity == 2 else _Guard3(f)
    if kind == 2:
        if arity == 2:
            return functools.partial(lambda tag, c, e: f(c, e), "bound")
        return functools.partial(lambda tag, c, e, params: f(c, e, params), "bound")
    if kind == 3:
        @functools.wraps(f)
        def wrapper(*a, **k):
            return f(*a, **k)
        return wrapper
    return f


class ServiceFailure(Exception):
    pass


def build_services(case: "gen.Case", rec: Rec) -> Dict[str, Any]:
    """Plain-callable services from case.services: unique return value per call, or raise."""
    out = {}
    calls = {"n": 0}

    def mk(name, plan):
        def _svc(interp, ctx, event, _n=name, _p=plan):
            calls["n"] += 1
            inp = (getattr(event, "payload", None) or {}).get("input")
            rec.log.append(("svcall", _n, inp, calls["n"]))
            if _p["mode"] == "raise":
                raise ServiceFailure("%s#%d" % (_n, calls["n"]))
            return {"svc": _n, "call": calls["n"]}
        return _svc
    for name, plan in case.services.items():
        out[name] = mk(name, plan)
    return out


def make_machine(case: "gen.Case", rec: Rec, gtable: Dict[str, Any], **kw):
    cfg = gen.materialize(case.plan)
    if case.services and "services" not in kw:
        kw["services"] = build_services(case, rec)
    logic = build_logic(case, rec, gtable, **kw)
    return create_machine(cfg, logic=logic)


# ---------------------------------------------------------------------------
# virtual-time asyncio loop
# ---------------------------------------------------------------------------
class VirtualDeadlock(RuntimeError):
    pass


class _VSelector(selectors.DefaultSelector):
    def __init__(self, clock):
        super().__init__()
        self._clock = clock

    def select(self, timeout=None):
        ready = super().select(0)
        if ready:
            return ready
        if timeout is None:
            raise VirtualDeadlock("virtual loop: nothing ready and nothing scheduled")
        if timeout > 0:
            self._clock[0] += timeout
        return ready


class VLoop(asyncio.SelectorEventLoop):
    """asyncio loop whose clock only advances when nothing is runnable."""

    def __init__(self):
        self._vclock = [0.0]
        super().__init__(_VSelector(self._vclock))

    def time(self):
        return self._vclock[0]


def run_virtual(coro_fn: Callable[[], Any]):
    """Run `await coro_fn()` on a fresh virtual loop; cancels leftovers."""
    loop = VLoop()
    asyncio.set_event_loop(loop)
    try:
        return loop.run_until_complete(coro_fn())
    finally:
        try:
            pending = [t for t in asyncio.all_tasks(loop) if not t.done()]
            for t in pending:
                t.cancel()
            if pending:
                loop.run_until_complete(asyncio.gather(*pending, return_exceptions=True))
        except Exception:
            pass
        asyncio.set_event_loop(None)
        loop.close()


async def drain(interp, max_yields: int = 20000, settle: int = 4) -> bool:
    """Wait until the async interpreter's queue is drained (no time passes).

    Returns False if quiescence was not reached within `max_yields` yields.
    """
    q = getattr(interp, "_event_queue", None)
    calm = 0
    for _ in range(max_yields):
        if interp.status != "running":
            # nothing more will be dequeued, but the consumer may still be inside the macrostep
            # that ended the machine (awaiting actions): wait for it to leave that macrostep
            if getattr(interp, "_processing", False):
                await asyncio.sleep(0)
                continue
            await asyncio.sleep(0)
            return True
        unfinished = getattr(q, "_unfinished_tasks", None)
        if unfinished is None:
            unfinished = 0 if q.empty() and not getattr(interp, "_processing", False) else 1
        if unfinished == 0 and not getattr(interp, "_processing", False):
            calm += 1
            if calm > settle:
                return True
        else:
            calm = 0
        await asyncio.sleep(0)
    return False


async def drain_timed(interp, step: float = 0.001, max_steps: int = 200000, settle: int = 3) -> bool:
    """Like drain(), but lets (virtual) time pass between checks, so macrosteps that contain
    sleeping actions, timers and service completions can finish."""
    q = getattr(interp, "_event_queue", None)
    calm = 0
    for _ in range(max_steps):
        if interp.status != "running" and not getattr(interp, "_processing", False):
            return True
        unfinished = getattr(q, "_unfinished_tasks", None)
        if unfinished is None:
            unfinished = 0 if q.empty() else 1
        if unfinished == 0 and not getattr(interp, "_processing", False):
            calm += 1
            if calm > settle:
                return True
        else:
            calm = 0
        await asyncio.sleep(step)
    return False


# ---------------------------------------------------------------------------
# status descriptor (sees every write of `.status`)
# ---------------------------------------------------------------------------
class StatusWatch:
    """Data descriptor installed on BaseInterpreter.status from the harness."""

    def __init__(self):
        self.sink: Optional[Callable[[Any, Any, Any], None]] = None

    def __set_name__(self, owner, name):
        self.name = name

    def __get__(self, obj, objtype=None):
        if obj is None:
            return self
        try:
            return obj.__dict__["status"]
        except KeyError:
            raise AttributeError("status")

    def __set__(self, obj, value):
        old = obj.__dict__.get("status", None)
        obj.__dict__["status"] = value
        if self.sink is not None:
            self.sink(obj, old, value)


_status_watch: Optional[StatusWatch] = None


def install_status_watch() -> StatusWatch:
    global _status_watch
    if _status_watch is None:
        from xstate_statemachine.base_interpreter import BaseInterpreter
        _status_watch = StatusWatch()
        BaseInterpreter.status = _status_watch  # type: ignore[attr-defined]
    return _status_watch


def engine_threads() -> List[threading.Thread]:
    return [t for t in threading.enumerate()
            if t.name.startswith(("after-", "send-", "actor-")) and t.is_alive()]


# ---------------------------------------------------------------------------
# harness-side wrappers on the engines' task methods (counted; zero => inconclusive)
# ---------------------------------------------------------------------------
SINK: Dict[str, Any] = {"log": None}
WRAP_COUNTS: Dict[str, int] = {}


def _emit(rec):
    lg = SINK["log"]
    if lg is not None:
        lg.append(rec)


def install_task_wrappers():
    """Wraps _after_timer/_invoke_service/_cancel_state_tasks/_schedule_state_tasks on both
    engines so that arm / cancel / invoke calls appear in the Recorder log:
      ("arm", owner_id, delay_sec, after_event)   ("cancel", state_id)
      ("invoke", owner_id, invocation)            ("sched", state_id)
    """
    from xstate_statemachine.base_interpreter import BaseInterpreter
    if getattr(BaseInterpreter, "_xsv_wrapped", False):
        return
    BaseInterpreter._xsv_wrapped = True

    def bump(k):
        WRAP_COUNTS[k] = WRAP_COUNTS.get(k, 0) + 1

    for cls in (SyncInterpreter, Interpreter):
        orig_after = cls.__dict__.get("_after_timer")
        if orig_after is not None:
            def _after(self, delay_sec, event, owner_id, _o=orig_after):
                bump("after_timer")
                _emit(("arm", owner_id, delay_sec, event, self))
                return _o(self, delay_sec, event, owner_id)
            cls._after_timer = _after
        orig_inv = cls.__dict__.get("_invoke_service")
        if orig_inv is not None:
            def _inv(self, invocation, service, owner_id, _o=orig_inv):
                bump("invoke_service")
                _emit(("invoke", owner_id, invocation, self))
                return _o(self, invocation, service, owner_id)
            cls._invoke_service = _inv
    oc = SyncInterpreter.__dict__.get("_cancel_state_tasks")
    if oc is not None:
        def _cancel_sync(self, state, _o=oc):
            bump("cancel_state_tasks")
            _emit(("cancel", state.id, self))
            return _o(self, state)
        SyncInterpreter._cancel_state_tasks = _cancel_sync
    oa = Interpreter.__dict__.get("_cancel_state_tasks")
    if oa is not None:
        async def _cancel_async(self, state, _o=oa):
            bump("cancel_state_tasks")
            _emit(("cancel", state.id, self))
            return await _o(self, state)
        Interpreter._cancel_state_tasks = _cancel_async
    os_ = BaseInterpreter.__dict__.get("_schedule_state_tasks")
    if os_ is not None:
        def _sched(self, state, _o=os_):
            bump("schedule_state_tasks")
            _emit(("sched", state.id, self))
            return _o(self, state)
        BaseInterpreter._schedule_state_tasks = _sched


def live_timers(interp) -> Dict[str, int]:
    """Live `after` timers / owned background tasks per owner state (engine internals; used as
    an *effect* observation: a timer that silently disappeared shows here)."""
    out: Dict[str, int] = {}
    ev = getattr(interp, "_after_events", None)
    if ev is not None:
        for k in list(ev.keys()):
            owner = k.split("::")[0]
            out[owner] = out.get(owner, 0) + 1
        return out
    tm = getattr(interp, "task_manager", None)
    if tm is not None:
        for owner, tasks in list(getattr(tm, "_tasks_by_owner", {}).items()):
            n = sum(1 for t in list(tasks) if not t.done())
            if n:
                out[owner] = n
    return out
