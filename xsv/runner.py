"""Check driver: chunk -> worker subprocesses -> aggregate -> verdict + evidence."""
from __future__ import annotations

import argparse
import concurrent.futures as cf
import importlib
import json
import os
import subprocess
import sys
import time
from typing import Any, Dict, List

VERIF = os.path.dirname(os.path.dirname(os.path.abspath(__file__)))
# Evidence and replays describe /repo. A run against any other tree (XSV_REPO=<scratch copy>, used to
# evaluate seeded changes) writes them under .scratch/ instead, so committed evidence never comes
# from a modified tree.
_OTHER_TREE = os.path.realpath(os.environ.get("XSV_REPO", "/repo/src")) != os.path.realpath("/repo/src")
OUT = os.path.join(VERIF, ".scratch") if _OTHER_TREE else VERIF
PY = "/venv/bin/python"
MAX_PROCS = int(os.environ.get("XSV_PROCS", "16"))


def _env(hashseed="0"):
    env = dict(os.environ)
    env["PYTHONHASHSEED"] = str(hashseed)
    deps = os.path.join(VERIF, ".deps")
    env["PYTHONPATH"] = os.pathsep.join([VERIF, deps] + (
        [env["PYTHONPATH"]] if env.get("PYTHONPATH") else []))
    env["XSTATE_STATEMACHINE_VERIF"] = "1"
    env.setdefault("PYTHONDONTWRITEBYTECODE", "1")
    return env


def run_worker(prop_id: str, spec: Dict[str, Any]) -> Dict[str, Any]:
    timeout = spec.get("timeout", 600)
    t0 = time.time()
    try:
        p = subprocess.run(
            [PY, "-m", "xsv.worker", prop_id], input=json.dumps(spec).encode(),
            stdout=subprocess.PIPE, stderr=subprocess.PIPE, timeout=timeout,
            env=_env(spec.get("hashseed", "0")), cwd=VERIF)
    except subprocess.TimeoutExpired:
        return {"evaluations": 0, "inconclusive": [f"chunk-timeout:{spec.get('name', '?')}"],
                "wall": time.time() - t0}
    out = p.stdout.decode(errors="replace").strip().splitlines()
    res = None
    for line in reversed(out):
        if line.startswith("XSVRESULT "):
            try:
                res = json.loads(line[len("XSVRESULT "):])
            except Exception:
                res = None
            break
    if res is None:
        err = p.stderr.decode(errors="replace")[-1500:]
        return {"evaluations": 0, "wall": time.time() - t0, "inconclusive": [
            f"worker-died:{spec.get('name', '?')}:rc={p.returncode}"], "stderr": err}
    res["wall"] = time.time() - t0
    return res


def load_known() -> List[Dict[str, Any]]:
    path = os.path.join(VERIF, "known_findings.json")
    if not os.path.exists(path):
        return []
    with open(path) as f:
        return json.load(f).get("findings", [])


def aggregate(prop, tier: str, seed: int, results: List[Dict[str, Any]], wall: float,
              specs: List[Dict[str, Any]]):
    pid = prop.ID
    counters: Dict[str, int] = {}
    hashes = set()
    samples: List[Any] = []
    inconclusive: List[str] = []
    violations: List[Dict[str, Any]] = []
    evaluations = 0
    for spec, r in zip(specs, results):
        evaluations += int(r.get("evaluations", 0))
        for k, v in (r.get("counters") or {}).items():
            if isinstance(v, (int, float)):
                counters[k] = counters.get(k, 0) + v
        hashes.update(r.get("hashes") or [])
        for s in (r.get("samples") or []):
            if len(samples) < 6:
                samples.append(s)
        inconclusive += list(r.get("inconclusive") or [])
        if r.get("stderr"):
            sys.stderr.write("--- worker stderr (%s) ---\n%s\n" % (spec.get("name"), r["stderr"]))
        for v in (r.get("violations") or []):
            v = dict(v)
            v["spec"] = spec
            violations.append(v)
    if hasattr(prop, "post"):
        # cross-chunk oracle (e.g. the same cases under different hash seeds)
        extra = prop.post(specs, results) or {}
        for k, v in (extra.get("counters") or {}).items():
            counters[k] = counters.get(k, 0) + v
        for v in (extra.get("violations") or []):
            violations.append(dict(v))
        inconclusive += list(extra.get("inconclusive") or [])
        hashes.update(extra.get("hashes") or [])
    if hasattr(prop, "quota"):
        inconclusive += list(prop.quota(counters, tier) or [])

    known = {k["key"]: k for k in load_known()
             if k.get("property") == pid and k.get("status") == "known"}
    by_key: Dict[str, List[Dict[str, Any]]] = {}
    for v in violations:
        by_key.setdefault(v["key"], []).append(v)
    new_keys = [k for k in by_key if k not in known]
    lines: List[str] = []
    os.makedirs(os.path.join(OUT, "replays"), exist_ok=True)
    for k in sorted(by_key):
        if k in known:
            lines.append("KNOWN-FINDING: property=%s %s [%s; %d hit(s) this run]" % (
                pid, known[k].get("what", k), k, len(by_key[k])))
    for i, k in enumerate(sorted(new_keys)):
        w = by_key[k][0]
        safe = "".join(c if c.isalnum() or c in "-_." else "_" for c in k)[:80]
        path = os.path.join(OUT, "replays", f"{pid}-{safe}.json")
        with open(path, "w") as f:
            json.dump({"property": pid, "key": k, "what": w.get("what"),
                       "witness": w.get("witness"), "spec": w.get("spec"),
                       "case": w.get("case"), "hits": len(by_key[k])}, f, indent=1, default=str)
        lines.append("VIOLATION property=%s replay=%s" % (pid, path))
        lines.append("  key=%s what=%s" % (k, w.get("what")))

    dedup_inc = sorted(set(inconclusive))
    verdict = "violated" if new_keys else ("inconclusive" if dedup_inc else "held")
    coverage = {
        "evaluations": int(evaluations),
        "distinct_nontrivial": len(hashes),
        "rule": prop.RULE,
        "samples": samples or [{"note": "no sample recorded"}],
        "observed": {k: counters[k] for k in sorted(counters)},
        "known_finding_hits": {k: len(v) for k, v in by_key.items() if k in known},
        "new_violation_keys": sorted(new_keys),
        "inconclusive": dedup_inc,
        "chunks": len(specs),
        "verdict": verdict,
    }
    if getattr(prop, "EXHAUSTIVE", None) and prop.EXHAUSTIVE.get(tier):
        coverage["exhaustive"] = True
    ev = {
        "property_id": pid, "tier": tier, "seed": int(seed),
        "level": getattr(prop, "LEVEL", "exploration"),
        "coverage": coverage,
        "assumptions": list(getattr(prop, "ASSUMPTIONS", [])),
        "wall_s": round(wall, 2),
        "violations": len(new_keys),
    }
    os.makedirs(os.path.join(OUT, "evidence"), exist_ok=True)
    with open(os.path.join(OUT, "evidence", f"{pid}.json"), "w") as f:
        json.dump(ev, f, indent=1, default=str)
    return verdict, lines, ev


def main(argv=None):
    ap = argparse.ArgumentParser()
    ap.add_argument("prop")
    ap.add_argument("--tier", default=os.environ.get("VERIF_TIER", "quick"))
    ap.add_argument("--seed", type=int, default=int(os.environ.get("VERIF_SEED", "0") or 0))
    ap.add_argument("--replay")
    ap.add_argument("--verbose", action="store_true")
    a = ap.parse_args(argv)
    pid = a.prop.upper()
    prop = importlib.import_module(f"xsv.props.{pid.lower()}")
    t0 = time.time()
    if a.replay:
        with open(a.replay) as f:
            w = json.load(f)
        spec = dict(w["spec"])
        spec["only_case"] = w.get("case")
        spec["replay"] = True
        res = run_worker(pid, spec)
        print(json.dumps({k: res.get(k) for k in ("violations", "counters", "inconclusive")},
                         indent=1, default=str))
        return 1 if res.get("violations") else 0
    import glob
    for old in glob.glob(os.path.join(VERIF, "replays", f"{pid}-*.json")):
        os.remove(old)
    specs = prop.chunks(a.tier, a.seed)
    with cf.ThreadPoolExecutor(max_workers=MAX_PROCS) as ex:
        results = list(ex.map(lambda s: run_worker(pid, s), specs))
    wall = time.time() - t0
    verdict, lines, ev = aggregate(prop, a.tier, a.seed, results, wall, specs)
    for ln in lines:
        print(ln)
    cov = ev["coverage"]
    print("%s tier=%s seed=%d verdict=%s evaluations=%d distinct_nontrivial=%d wall=%.1fs" % (
        pid, a.tier, a.seed, verdict, cov["evaluations"], cov["distinct_nontrivial"], wall))
    if a.verbose or verdict != "held":
        print("observed:", json.dumps(cov["observed"]))
    if verdict == "inconclusive":
        for r in cov["inconclusive"]:
            print("INCONCLUSIVE property=%s reason=%s" % (pid, r))
        return 2
    return 1 if verdict == "violated" else 0


if __name__ == "__main__":
    sys.exit(main())
