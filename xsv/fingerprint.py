"""Deep structural fingerprint of a MachineNode tree (harness-side, independent of the CLI's)."""
from __future__ import annotations

from typing import Any, Dict, List, Optional

from .observe import xs  # noqa: F401  (ensures the library path is set)
from xstate_statemachine.exceptions import StateNotFoundError
from xstate_statemachine.resolver import resolve_target_state


def _val(v: Any) -> Any:
    if callable(v) and not isinstance(v, type):
        return "<callable>"
    if isinstance(v, dict):
        return {str(k): _val(x) for k, x in sorted(v.items(), key=lambda kv: str(kv[0]))}
    if isinstance(v, (list, tuple)):
        return [_val(x) for x in v]
    if isinstance(v, (set, frozenset)):
        return sorted(_val(x) for x in v)
    if isinstance(v, (str, int, float, bool)) or v is None:
        return v
    return repr(type(v).__name__)


def resolve_id(machine, source, target_str) -> Optional[str]:
    """State id a target string denotes when written on `source` (library resolver, with the
    same attempt order both interpreters use)."""
    if not target_str:
        return None
    attempts = [(target_str, source)]
    if source.parent is not None:
        attempts.append((target_str, source.parent))
    attempts += [(target_str, machine), (f"{machine.id}.{target_str}", machine)]
    for tgt, ref in attempts:
        try:
            return resolve_target_state(tgt, ref).id
        except StateNotFoundError:
            continue
        except Exception as e:  # noqa: BLE001
            return "ERROR:%s" % type(e).__name__

    def walk(n):
        yield n
        for c in n.states.values():
            yield from walk(c)
    for cand in walk(machine):
        if cand.id.split(".")[-1] == target_str:
            return cand.id
    return "UNRESOLVED:" + str(target_str)


def guard_fp(g) -> Any:
    if g is None:
        return None
    return {"type": g.type, "params": _val(_strip_children(g)),
            "children": [guard_fp(c) for c in g.children]}


def _strip_children(g):
    p = g.params
    if g.children and isinstance(p, dict):
        p = {k: v for k, v in p.items() if k not in ("guards", "children", "guard")}
        return p or None
    return p


def action_fp(a) -> Any:
    return {"type": a.type, "params": _val(a.params)}


def trans_fp(machine, t, resolved=True) -> Any:
    return {
        "event": t.event,
        "target": resolve_id(machine, t.source, t.target_str) if resolved else t.target_str,
        "actions": [action_fp(a) for a in t.actions],
        "guard": guard_fp(t.guard_def),
        "reenter": bool(t.reenter),
        "forbidden": bool(getattr(t, "forbidden", False)),
    }


def node_fp(machine, n, resolved=True) -> Dict[str, Any]:
    d: Dict[str, Any] = {
        "id": n.id, "type": n.type, "initial": n.initial,
        "history": getattr(n, "history", None),
        "hist_default": (resolve_id(machine, n, n.target_str) if (n.type == "history" and resolved)
                         else (n.target_str if n.type == "history" else None)),
        "custom_id": getattr(n, "custom_id", None),
        "tags": sorted(getattr(n, "tags", []) or []),
        "meta": _val(getattr(n, "meta", None) or {}),
        "description": getattr(n, "description", None),
        "output": _val(getattr(n, "output", None)),
        "entry": [action_fp(a) for a in n.entry],
        "exit": [action_fp(a) for a in n.exit],
        "on": {ev: [trans_fp(machine, t, resolved) for t in ts] for ev, ts in n.on.items()},
        "on_done": trans_fp(machine, n.on_done, resolved) if n.on_done else None,
        "after": {str(k): [trans_fp(machine, t, resolved) for t in ts] for k, ts in n.after.items()},
        # timers are armed in declaration order, which decides between delays that come out equal
        "after_order": [str(k) for k in n.after],
        "invoke": [{"id": i.id, "src": i.src, "input": _val(i.input),
                    "on_done": [trans_fp(machine, t, resolved) for t in i.on_done],
                    "on_error": [trans_fp(machine, t, resolved) for t in i.on_error]}
                   for i in n.invoke],
        "states": [node_fp(machine, c, resolved) for c in n.states.values()],
    }
    return d


def machine_fp(machine, resolved=True) -> Dict[str, Any]:
    d = node_fp(machine, machine, resolved)
    d["context"] = _val(machine.initial_context)
    d["max_iterations"] = getattr(machine, "max_iterations", None)
    d["machine_output"] = _val(getattr(machine, "machine_output", None))
    return d


def diff(a: Any, b: Any, path: str = "") -> List[str]:
    """Paths at which two fingerprints differ (first few)."""
    out: List[str] = []
    if type(a) != type(b):
        return [f"{path}: {a!r} != {b!r}"[:200]]
    if isinstance(a, dict):
        for k in sorted(set(a) | set(b)):
            if k not in a or k not in b:
                out.append(f"{path}/{k}: {'missing left' if k not in a else 'missing right'}")
            else:
                out += diff(a[k], b[k], f"{path}/{k}")
            if len(out) > 6:
                break
        return out
    if isinstance(a, list):
        if len(a) != len(b):
            return [f"{path}: len {len(a)} != {len(b)}"]
        for i, (x, y) in enumerate(zip(a, b)):
            out += diff(x, y, f"{path}[{i}]")
            if len(out) > 6:
                break
        return out
    if a != b:
        return [f"{path}: {a!r} != {b!r}"[:200]]
    return out
